(* Heap/Uniq.v - C05: ID uniqueness as an invariant of every history.
   In every state reached by the modelled API calls, two different members of one membership list of one document
   carry different IDs, unless the ID is exempt: in the reserved (common definitions) range, undefined, or - for
   track UIDs - silent or at/above the top of the 32-bit field (in the model values are unbounded; a value that
   does not fit the field is outside what the model says about the code).
   The only hypothesis on the history: an ID passed to set(Id) has the shape the C++ type of that ID enforces
   ([okid]); for pack, channel and stream format IDs the value 0 is used by the all-zero (undefined) ID only.
   No hypothesis of distinctness is made anywhere: the distinctness that nextCounter needs is the invariant itself. *)
From Coq Require Import Sorting.Mergesort Sorting.Permutation Sorting.Sorted ZifyBool ZifyN.
From Adm Require Import Heap.Frame Heap.Writes Heap.PlanChecks Heap.Sync Heap.WF Heap.Ids Heap.Remove.
Local Open Scope N_scope.

(* ---------- nextCounter: a result below M is fresh when the values below M are pairwise distinct ---------- *)
Lemma head_le : forall (l : list N) a, LocallySorted (fun a b => is_true (a <=? b)) (a :: l) ->
  forall x, In x (a :: l) -> a <= x.
Proof.
  induction l as [|b l IH]; intros a Hs x Hx.
  - destruct Hx as [<- | []]. apply N.le_refl.
  - inversion Hs; subst. destruct Hx as [<- | Hx]; [apply N.le_refl|].
    apply N.le_trans with b; [apply N.leb_le; assumption|]. apply IH; auto.
Qed.

Lemma after_run_gt : forall rest x, x < after_run x rest.
Proof.
  induction rest as [|y r IH]; intros x; simpl; [lia|].
  destruct (N.eqb_spec (x + 1) y) as [E|Ne]; [|lia]. specialize (IH y). lia.
Qed.

Lemma after_run_fresh M : forall rest x, LocallySorted (fun a b => is_true (a <=? b)) (x :: rest) ->
  (forall c, c < M -> In c (x :: rest) -> (count_occ N.eq_dec (x :: rest) c <= 1)%nat) ->
  after_run x rest < M -> ~ In (after_run x rest) (x :: rest).
Proof.
  induction rest as [|y rest IH]; intros x Hs Hd Hlt.
  - simpl. intros [E | []]. lia.
  - cbn [after_run] in *. destruct (N.eqb_spec (x + 1) y) as [E|Ne].
    + intros [F | F]; [pose proof (after_run_gt rest y); lia|]. revert F.
      apply IH; [inversion Hs; auto| |exact Hlt].
      intros c Hc Hin. specialize (Hd c Hc (or_intror Hin)). cbn [count_occ] in Hd |- *.
      destruct (N.eq_dec x c), (N.eq_dec y c); lia.
    + intros F. assert (Hxy : x <= y) by (inversion Hs; subst; apply N.leb_le; assumption).
      destruct F as [F | F]; [lia|].
      assert (y <= x + 1) by (apply (head_le rest y); [inversion Hs; auto|exact F]).
      assert (y = x) by lia. subst y. assert (Hx : x < M) by lia.
      specialize (Hd x Hx (or_introl eq_refl)). cbn [count_occ] in Hd.
      destruct (N.eq_dec x x); [|congruence]. lia.
Qed.

Lemma next_counter_ge cs pref : pref <= next_counter cs pref.
Proof.
  unfold next_counter. destruct (lower_bound (NSort.sort cs) pref) as [|x r]; [lia|].
  destruct (N.eqb_spec x pref) as [->|]; [|lia]. pose proof (after_run_gt r pref). lia.
Qed.

Theorem next_counter_fresh_below cs pref M :
  (forall c, pref <= c -> c < M -> (count_occ N.eq_dec cs c <= 1)%nat) ->
  next_counter cs pref < M -> ~ In (next_counter cs pref) cs.
Proof.
  intros Hd. unfold next_counter.
  pose proof (NSort.Sorted_sort cs) as Hs. apply Sorted_LocallySorted_iff in Hs. pose proof (NSort.Permuted_sort cs) as Hp.
  set (l := NSort.sort cs) in *.
  assert (Hin : forall x, In x cs -> In x l) by (intros x H; eapply Permutation_in; eauto).
  destruct (lower_bound_spec l pref) as (_ & _ & pre & E & Hpre).
  assert (Hge : forall x, In x (lower_bound l pref) -> pref <= x) by (apply sorted_suffix_ge; exact Hs).
  assert (Hss : LocallySorted (fun a b => is_true (a <=? b)) (lower_bound l pref)).
  { rewrite E in Hs. eapply locally_sorted_app_r; eauto. }
  set (S := lower_bound l pref) in *.
  assert (Hcnt : forall c, pref <= c -> c < M -> (count_occ N.eq_dec S c <= 1)%nat).
  { intros c H1 H2. specialize (Hd c H1 H2). rewrite (proj1 (Permutation_count_occ N.eq_dec cs l) Hp c) in Hd.
    rewrite E, count_occ_app in Hd. lia. }
  destruct S as [|x rest] eqn:ES.
  - intros _ H. apply Hin in H. rewrite E in H. apply in_app_iff in H. destruct H as [H | []].
    specialize (Hpre _ H). lia.
  - destruct (N.eqb_spec x pref) as [->|Ne].
    + intros Hlt H. apply Hin in H. rewrite E in H. apply in_app_iff in H. destruct H as [H | H].
      * specialize (Hpre _ H). pose proof (after_run_gt rest pref). lia.
      * revert H. apply (after_run_fresh M); auto.
    + intros _ H. apply Hin in H. rewrite E in H. apply in_app_iff in H. destruct H as [H | H].
      * specialize (Hpre _ H). lia.
      * pose proof (head_le _ _ Hss _ H). pose proof (Hge x (or_introl eq_refl)). lia.
Qed.

(* ---------- the invariant ---------- *)
(* the shape the C++ ID types enforce; value 0 of pack/channel/stream format IDs belongs to the undefined ID *)
Definition okid (k : kind) (i : idv) : bool :=
  match k with
  | KProg | KCont | KObj | KUid => (ity i =? 0) && (ictr i =? 0)
  | KPack | KChan | KStream => (ictr i =? 0) && (negb (ival i =? 0) || (ity i =? 0))
  | KTrack => true
  end.
Definition exempt (k : kind) (i : idv) : bool :=
  is_reserved k i || is_undefined k i ||
  match k with KUid => is_silent_id i || (uid_undef_val <=? ival i) | _ => false end.

Definition uniq_list (s : state) (k : kind) (l : list positive) : Prop :=
  forall h1 h2 e1 e2, In h1 l -> In h2 l -> h1 <> h2 -> get_elem s h1 = Some e1 -> get_elem s h2 = Some e2 ->
    exempt k (eid e1) = false -> eid e1 <> eid e2.
Definition Uniq (s : state) : Prop := forall d k, uniq_list s k (listed s d k).
Definition IdOk (s : state) : Prop := forall h e, get_elem s h = Some e -> okid (ekind e) (eid e) = true.
Definition U (s : state) : Prop := MemOk s /\ Uniq s /\ IdOk s.

Lemma ids_of_in s l i : In i (ids_of s l) <-> exists h e, In h l /\ get_elem s h = Some e /\ eid e = i.
Proof.
  induction l as [|h l IH]; simpl.
  - split; [intros []|intros (h & e & [] & _)].
  - destruct (get_elem s h) as [e|] eqn:He.
    + simpl. rewrite IH. split.
      * intros [<- | (h2 & e2 & H1 & H2 & H3)]; [exists h, e; auto|exists h2, e2; auto].
      * intros (h2 & e2 & [<- | H1] & H2 & H3); [left; congruence|right; exists h2, e2; auto].
    + rewrite IH. split.
      * intros (h2 & e2 & H1 & H2 & H3). exists h2, e2; auto.
      * intros (h2 & e2 & [<- | H1] & H2 & H3); [congruence|exists h2, e2; auto].
Qed.

(* within one family (p) a field value (f) that determines the ID and is not exempt occurs at most once *)
Lemma fam_count s k (p : idv -> bool) (f : idv -> N) c : forall l, NoDup l -> uniq_list s k l ->
  (forall h e, In h l -> get_elem s h = Some e -> okid k (eid e) = true) ->
  (forall i j, okid k i = true -> okid k j = true -> p i = true -> p j = true -> f i = c -> f j = c -> i = j) ->
  (forall h e, In h l -> get_elem s h = Some e -> p (eid e) = true -> f (eid e) = c -> exempt k (eid e) = false) ->
  (count_occ N.eq_dec (map f (filter p (ids_of s l))) c <= 1)%nat.
Proof.
  induction l as [|h l IH]; intros Hn Hu Hok Hinj Hne; [simpl; lia|].
  inversion Hn as [|? ? Hnh Hn']; subst.
  assert (IHl : (count_occ N.eq_dec (map f (filter p (ids_of s l))) c <= 1)%nat).
  { apply IH; auto.
    - intros h1 h2 e1 e2 H1 H2. apply Hu; right; auto.
    - intros h0 e0 H0. apply Hok. right. exact H0.
    - intros h0 e0 H0. apply Hne. right. exact H0. }
  cbn [ids_of fold_right]. fold (ids_of s l).
  destruct (get_elem s h) as [e|] eqn:He; [|exact IHl].
  cbn [filter]. destruct (p (eid e)) eqn:Hp; [|exact IHl].
  cbn [map count_occ]. destruct (N.eq_dec (f (eid e)) c) as [Ef|]; [|exact IHl].
  assert (Z : count_occ N.eq_dec (map f (filter p (ids_of s l))) c = 0%nat).
  { apply count_occ_not_In. intros Hin. apply in_map_iff in Hin. destruct Hin as (j & Fj & Hj).
    apply filter_In in Hj. destruct Hj as [Hj Pj]. apply ids_of_in in Hj. destruct Hj as (h2 & e2 & Hin2 & He2 & <-).
    assert (Hok1 : okid k (eid e) = true) by (apply (Hok h); [left; reflexivity|exact He]).
    assert (Hok2 : okid k (eid e2) = true) by (apply (Hok h2); [right; exact Hin2|exact He2]).
    assert (Eq : eid e = eid e2) by (apply Hinj; auto).
    assert (Hex : exempt k (eid e) = false) by (apply (Hne h e); auto; left; reflexivity).
    apply (Hu h h2 e e2); auto; [left; reflexivity|right; exact Hin2|intros ->; contradiction]. }
  rewrite Z. lia.
Qed.

Lemma nodup_filter_count (q : N -> bool) : forall l, (forall c, q c = true -> (count_occ N.eq_dec l c <= 1)%nat) ->
  NoDup (filter q l).
Proof.
  induction l as [|a l IH]; intros H; simpl; [constructor|].
  assert (Ht : forall c, q c = true -> (count_occ N.eq_dec l c <= 1)%nat).
  { intros c Qc. specialize (H c Qc). simpl in H. destruct (N.eq_dec a c); lia. }
  destruct (q a) eqn:Q; [|apply IH; exact Ht].
  constructor; [|apply IH; exact Ht]. intros Hin. apply filter_In in Hin. destruct Hin as [Hin _].
  specialize (H a Q). simpl in H. destruct (N.eq_dec a a); [|congruence].
  apply (count_occ_In N.eq_dec) in Hin. lia.
Qed.

(* the hypothesis of the least-free-value theorem of Heap/Ids.v, from the invariant *)
Lemma fam_nodup s k l (p : idv -> bool) (f : idv -> N) pref :
  NoDup l -> uniq_list s k l -> (forall h e, In h l -> get_elem s h = Some e -> okid k (eid e) = true) ->
  (forall c, pref <= c ->
     (forall i j, okid k i = true -> okid k j = true -> p i = true -> p j = true -> f i = c -> f j = c -> i = j) /\
     (forall h e, In h l -> get_elem s h = Some e -> p (eid e) = true -> f (eid e) = c -> exempt k (eid e) = false)) ->
  NoDup (filter (fun c => pref <=? c) (map f (filter p (ids_of s l)))).
Proof.
  intros Hn Hu Hok Hfam. apply nodup_filter_count. intros c Hc. apply N.leb_le in Hc.
  destruct (Hfam c Hc) as [Hinj Hne]. apply (fam_count s k p f c l); auto.
Qed.

(* the counter chosen by nextCounter within a family is carried by no member, when it is below M and the
   values from pref to M determine the ID and are not exempt *)
Lemma nc_unique s k l (p : idv -> bool) (f : idv -> N) pref M (ni : idv) :
  NoDup l -> uniq_list s k l -> (forall h e, In h l -> get_elem s h = Some e -> okid k (eid e) = true) ->
  p ni = true -> f ni = next_counter (map f (filter p (ids_of s l))) pref -> f ni < M ->
  (forall c, pref <= c -> c < M ->
     (forall i j, okid k i = true -> okid k j = true -> p i = true -> p j = true -> f i = c -> f j = c -> i = j) /\
     (forall i, okid k i = true -> p i = true -> f i = c -> exempt k i = false)) ->
  forall h e2, In h l -> get_elem s h = Some e2 -> eid e2 <> ni.
Proof.
  intros Hn Hu Hok Hp Hf Hlt Hfam h e2 Hin He2 E.
  apply (next_counter_fresh_below (map f (filter p (ids_of s l))) pref M).
  - intros c H1 H2. destruct (Hfam c H1 H2) as [Hinj Hne]. apply (fam_count s k p f c l); auto.
    intros h0 e0 Hin0 He0. apply Hne. eapply Hok; eauto.
  - rewrite <- Hf. exact Hlt.
  - rewrite <- Hf. apply in_map_iff. exists ni. split; auto. apply filter_In. split; auto.
    apply ids_of_in. exists h, e2. auto.
Qed.

(* ---------- the ID IdAssigner::assignId computes is carried by no member, with no hypothesis of distinctness ---------- *)
Lemma pref_ge k i : okid k i = true -> is_reserved k i = false -> k <> KTrack -> k <> KUid ->
  4096 <= (if is_undefined k i then 4097 else ival i).
Proof.
  destruct k; unfold okid, is_reserved, is_undefined; intros; try congruence;
    destruct ((ity i =? 0) && (ival i =? 0) && (ictr i =? 0)) eqn:?; lia.
Qed.

Section Families.
Variable s : state.
Variable k : kind.
Variable l : list positive.
Hypothesis Hn : NoDup l.
Hypothesis Hu : uniq_list s k l.
Hypothesis Hl : forall h e, In h l -> get_elem s h = Some e -> okid k (eid e) = true.

Lemma simple_unique pref : k = KProg \/ k = KCont \/ k = KObj -> 4096 <= pref ->
  let ni := mkId 0 (next_counter (map ival (ids_of s l)) pref) 0 in
  okid k ni = true /\ forall h e2, In h l -> get_elem s h = Some e2 -> eid e2 <> ni.
Proof.
  intros Hk Hp ni. pose proof (next_counter_ge (map ival (ids_of s l)) pref) as Hge.
  split; [destruct Hk as [-> | [-> | ->]]; reflexivity|].
  apply (nc_unique s k l (fun _ => true) ival pref (ival ni + 1) ni); auto.
  - unfold ni. simpl. rewrite filter_all_true. reflexivity.
  - lia.
  - intros c H1 H2. split.
    + intros i j Hi Hj _ _ Fi Fj. destruct i as [a b c1], j as [a' b' c']. simpl in *.
      destruct Hk as [-> | [-> | ->]]; unfold okid in *; simpl in *; f_equal; lia.
    + intros i Hi _ Fi. destruct Hk as [-> | [-> | ->]]; unfold okid, exempt, is_reserved, is_undefined in *; lia.
Qed.

Lemma typed_unique td pref : k = KPack \/ k = KChan \/ k = KStream -> 4096 <= pref ->
  let ni := mkId td (next_counter (map ival (filter (fun j => ity j =? td) (ids_of s l))) pref) 0 in
  okid k ni = true /\ forall h e2, In h l -> get_elem s h = Some e2 -> eid e2 <> ni.
Proof.
  intros Hk Hp ni.
  pose proof (next_counter_ge (map ival (filter (fun j => ity j =? td) (ids_of s l))) pref) as Hge.
  split; [destruct Hk as [-> | [-> | ->]]; unfold okid, ni; simpl; lia|].
  apply (nc_unique s k l (fun j => ity j =? td) ival pref (ival ni + 1) ni); auto.
  - unfold ni. simpl. apply N.eqb_refl.
  - lia.
  - intros c H1 H2. split.
    + intros i j Hi Hj Pi Pj Fi Fj. destruct i as [a b c1], j as [a' b' c']. simpl in *.
      destruct Hk as [-> | [-> | ->]]; unfold okid in *; simpl in *; f_equal; lia.
    + intros i Hi _ Fi. destruct Hk as [-> | [-> | ->]]; unfold okid, exempt, is_reserved, is_undefined in *; lia.
Qed.

Lemma track_unique td v c0 : k = KTrack -> (td = 0 -> v = 0 -> 1 <= c0) ->
  let ni := mkId td v (next_counter (map ictr (filter (fun j => (ity j =? td) && (ival j =? v)) (ids_of s l))) c0) in
  exempt KTrack ni = false -> forall h e2, In h l -> get_elem s h = Some e2 -> eid e2 <> ni.
Proof.
  intros Hk Hc ni Hex.
  apply (nc_unique s k l (fun j => (ity j =? td) && (ival j =? v)) ictr c0 (ictr ni + 1) ni); auto.
  - unfold ni. simpl. rewrite !N.eqb_refl. reflexivity.
  - lia.
  - intros c H1 H2. split.
    + intros i j _ _ Pi Pj Fi Fj. destruct i as [a b c1], j as [a' b' c']. simpl in *. f_equal; lia.
    + intros i _ Pi Fi. subst k. unfold exempt, is_reserved, is_undefined, ni in *. simpl in *. lia.
Qed.

Lemma uid_unique pref : k = KUid -> 1 <= pref ->
  let ni := mkId 0 (next_counter (map ival (ids_of s l)) pref) 0 in
  okid k ni = true /\
  (exempt KUid ni = false -> forall h e2, In h l -> get_elem s h = Some e2 -> eid e2 <> ni).
Proof.
  intros Hk Hp ni. split; [subst k; reflexivity|]. intros Hex.
  apply (nc_unique s k l (fun _ => true) ival pref uid_undef_val ni); auto.
  - unfold ni. simpl. rewrite filter_all_true. reflexivity.
  - unfold exempt, is_reserved, is_undefined, is_silent_id, ni, uid_undef_val in *. simpl in *. lia.
  - intros c H1 H2. split.
    + intros i j Hi Hj _ _ Fi Fj. destruct i as [a b c1], j as [a' b' c']. subst k. unfold okid in *. simpl in *. f_equal; lia.
    + intros i Hi _ Fi. subst k. unfold exempt, is_reserved, is_undefined, is_silent_id, uid_undef_val in *. lia.
Qed.
End Families.

Lemma new_id_unique s x e ni : new_id_for s x e = Some ni ->
  okid (ekind e) (eid e) = true -> is_reserved (ekind e) (eid e) = false ->
  NoDup (members x (ekind e)) -> uniq_list s (ekind e) (members x (ekind e)) ->
  (forall h e2, In h (members x (ekind e)) -> get_elem s h = Some e2 -> okid (ekind e) (eid e2) = true) ->
  okid (ekind e) ni = true /\
  (exempt (ekind e) ni = false -> forall h e2, In h (members x (ekind e)) -> get_elem s h = Some e2 -> eid e2 <> ni).
Proof.
  unfold new_id_for. intros H Hok Hres Hn Hu Hl.
  destruct (ekind e) eqn:Hk.
  - inversion H; subst ni. destruct (simple_unique s KProg _ Hn Hu Hl _ (or_introl eq_refl) (pref_ge _ _ Hok Hres ltac:(discriminate) ltac:(discriminate))); auto.
  - inversion H; subst ni. destruct (simple_unique s KCont _ Hn Hu Hl _ (or_intror (or_introl eq_refl)) (pref_ge _ _ Hok Hres ltac:(discriminate) ltac:(discriminate))); auto.
  - inversion H; subst ni. destruct (simple_unique s KObj _ Hn Hu Hl _ (or_intror (or_intror eq_refl)) (pref_ge _ _ Hok Hres ltac:(discriminate) ltac:(discriminate))); auto.
  - inversion H; subst ni. destruct (typed_unique s KPack _ Hn Hu Hl (etd e) _ (or_introl eq_refl) (pref_ge _ _ Hok Hres ltac:(discriminate) ltac:(discriminate))); auto.
  - inversion H; subst ni. destruct (typed_unique s KChan _ Hn Hu Hl (etd e) _ (or_intror (or_introl eq_refl)) (pref_ge _ _ Hok Hres ltac:(discriminate) ltac:(discriminate))); auto.
  - pose proof (pref_ge _ _ Hok Hres ltac:(discriminate) ltac:(discriminate)) as Hp.
    destruct (is_undefined KStream (eid e)); inversion H; subst ni;
      match goal with |- okid _ (mkId ?td _ _) = true /\ _ =>
        destruct (typed_unique s KStream _ Hn Hu Hl td _ (or_intror (or_intror eq_refl)) Hp); auto end.
  - split; [reflexivity|]. intros Hex.
    destruct (is_undefined KTrack (eid e)) eqn:Hund.
    + destruct (single (erefs e TrackStream)) as [st|]; [destruct (get_elem s st) as [se|]|];
        inversion H; subst ni; apply (track_unique s KTrack _ Hn Hu Hl); auto; intros; lia.
    + inversion H; subst ni. apply (track_unique s KTrack _ Hn Hu Hl); auto.
      intros E1 E2. unfold is_undefined in Hund. lia.
  - destruct (is_silent_id (eid e)) eqn:Hsil; [discriminate|]. inversion H; subst ni.
    apply (uid_unique s KUid _ Hn Hu Hl); auto.
    unfold is_silent_id in Hsil. match goal with |- 1 <= (if ?b then _ else _) => destruct b end; lia.
Qed.

(* in a state satisfying the invariant the distinctness hypothesis of Heap/Ids.v holds for every element that
   receives a non-reserved ID (for track UIDs: while every listed UID fits the field) *)
Ltac inj_ids :=
  let i := fresh "i" in let j := fresh "j" in
  intros i j; intros; destruct i, j; unfold okid in *; simpl in *; f_equal; lia.
Theorem distinct_from_U s d x e ni : U s -> get_doc s d = Some x ->
  okid (ekind e) (eid e) = true -> is_reserved (ekind e) (eid e) = false ->
  new_id_for s x e = Some ni -> is_reserved (ekind e) ni = false ->
  (ekind e = KUid -> forall h e2, In h (members x KUid) -> get_elem s h = Some e2 -> ival (eid e2) < uid_undef_val) ->
  distinct_above s x e.
Proof.
  intros (M & Un & Ok) Hx Hok Hres Hni Hnr Huid.
  assert (Hl : listed s d (ekind e) = members x (ekind e)) by (unfold listed; rewrite Hx; reflexivity).
  assert (Hn : NoDup (members x (ekind e))) by (rewrite <- Hl; apply (mo_nodup _ M)).
  assert (Hu : uniq_list s (ekind e) (members x (ekind e))) by (rewrite <- Hl; apply Un).
  assert (Hlk : forall h e2, In h (members x (ekind e)) -> get_elem s h = Some e2 -> okid (ekind e) (eid e2) = true).
  { intros h2 e2 Hin He2. rewrite <- Hl in Hin. apply (mo_listed _ M) in Hin. destruct Hin as [Hk2 _].
    unfold kindof in Hk2. rewrite He2 in Hk2. assert (Ek2 : ekind e2 = ekind e) by congruence. rewrite <- Ek2. apply (Ok h2). exact He2. }
  unfold distinct_above, rel_pred, rel_field, rel_pref. unfold new_id_for in Hni.
  destruct (ekind e) eqn:Hk.
  - pose proof (pref_ge _ _ Hok Hres ltac:(discriminate) ltac:(discriminate)) as Hp.
    apply (fam_nodup s KProg); auto. intros c Hc. split; [inj_ids|].
    intros h0 e0 Hin He0 _ Fi. pose proof (Hlk h0 e0 Hin He0). unfold okid, exempt, is_reserved, is_undefined in *. lia.
  - pose proof (pref_ge _ _ Hok Hres ltac:(discriminate) ltac:(discriminate)) as Hp.
    apply (fam_nodup s KCont); auto. intros c Hc. split; [inj_ids|].
    intros h0 e0 Hin He0 _ Fi. pose proof (Hlk h0 e0 Hin He0). unfold okid, exempt, is_reserved, is_undefined in *. lia.
  - pose proof (pref_ge _ _ Hok Hres ltac:(discriminate) ltac:(discriminate)) as Hp.
    apply (fam_nodup s KObj); auto. intros c Hc. split; [inj_ids|].
    intros h0 e0 Hin He0 _ Fi. pose proof (Hlk h0 e0 Hin He0). unfold okid, exempt, is_reserved, is_undefined in *. lia.
  - pose proof (pref_ge _ _ Hok Hres ltac:(discriminate) ltac:(discriminate)) as Hp.
    apply (fam_nodup s KPack); auto. intros c Hc. split; [inj_ids|].
    intros h0 e0 Hin He0 _ Fi. pose proof (Hlk h0 e0 Hin He0). unfold okid, exempt, is_reserved, is_undefined in *. lia.
  - pose proof (pref_ge _ _ Hok Hres ltac:(discriminate) ltac:(discriminate)) as Hp.
    apply (fam_nodup s KChan); auto. intros c Hc. split; [inj_ids|].
    intros h0 e0 Hin He0 _ Fi. pose proof (Hlk h0 e0 Hin He0). unfold okid, exempt, is_reserved, is_undefined in *. lia.
  - pose proof (pref_ge _ _ Hok Hres ltac:(discriminate) ltac:(discriminate)) as Hp. cbv zeta.
    apply (fam_nodup s KStream); auto. intros c Hc. split; [inj_ids|].
    intros h0 e0 Hin He0 _ Fi. pose proof (Hlk h0 e0 Hin He0). unfold okid, exempt, is_reserved, is_undefined in *. lia.
  - destruct (is_undefined KTrack (eid e)) eqn:Hund.
    + destruct (single (erefs e TrackStream)) as [st|]; [destruct (get_elem s st) as [se|]|];
        inversion Hni; subst ni; (apply (fam_nodup s KTrack); auto; intros c Hc; split; [inj_ids|]);
        intros h0 e0 Hin He0 Pp Fi; unfold exempt, is_reserved, is_undefined in *; simpl in *; lia.
    + inversion Hni; subst ni. apply (fam_nodup s KTrack); auto. intros c Hc. split; [inj_ids|].
      intros h0 e0 Hin He0 Pp Fi. unfold exempt, is_reserved, is_undefined in *. simpl in *. lia.
  - destruct (is_silent_id (eid e)) eqn:Hsil; [discriminate|].
    apply (fam_nodup s KUid); auto. intros c Hc. split; [inj_ids|].
    intros h0 e0 Hin He0 _ Fi. pose proof (Huid eq_refl h0 e0 Hin He0).
    unfold exempt, is_reserved, is_undefined, is_silent_id, uid_undef_val in *.
    match type of Hc with (if ?b then _ else _) <= _ => destruct b end; lia.
Qed.

(* ---------- attaching an element (assignId, parent, membership list) keeps the invariant ---------- *)
Lemma eid_with_id e ni : eid (with_id e ni) = ni.
Proof. unfold with_id. destruct (ekind e); reflexivity. Qed.

Lemma new_id_none s x e : new_id_for s x e = None -> ekind e = KUid /\ is_silent_id (eid e) = true.
Proof.
  unfold new_id_for. destruct (ekind e); try discriminate.
  - destruct (is_undefined KStream (eid e)); discriminate.
  - destruct (is_undefined KTrack (eid e)); [|discriminate].
    destruct (single (erefs e TrackStream)) as [st|]; [destruct (get_elem s st)|]; discriminate.
  - destruct (is_silent_id (eid e)); [auto|discriminate].
Qed.

Lemma attach_MemOk d k h s s' u : attach d k h s = (s', inl u) -> MemOk s -> parent s h = None ->
  kindof s h = Some k -> MemOk s'.
Proof.
  intros H M Hp Hk. apply attach_views in H. destruct H as (P1 & K1 & R1 & L1 & D1 & Dd & Hh).
  assert (Hnl : forall d' k', ~ In h (listed s d' k')).
  { intros d' k' Hin. apply (mo_listed _ M) in Hin. destruct Hin as [_ Hin]. congruence. }
  constructor.
  - intros d' k'. rewrite L1. destruct (Pos.eqb d d' && kind_eqb k' k); [|apply (mo_nodup _ M)].
    apply nodup_snoc; [apply (mo_nodup _ M)|apply Hnl].
  - intros d' k' a. rewrite L1, K1, P1. destruct (Pos.eqb d d' && kind_eqb k' k) eqn:E.
    + apply andb_true_iff in E. destruct E as [E1 E2]. apply Pos.eqb_eq in E1. apply kind_eqb_eq in E2. subst.
      rewrite in_app_iff. intros [Hin | [<- | []]].
      * destruct (Pos.eqb_spec h a) as [->|N]; [exfalso; eapply Hnl; eauto|]. apply (mo_listed _ M); auto.
      * rewrite Pos.eqb_refl. auto.
    + intros Hin. destruct (Pos.eqb_spec h a) as [->|N]; [exfalso; eapply Hnl; eauto|]. apply (mo_listed _ M); auto.
  - intros a d' k'. rewrite L1, K1, P1. destruct (Pos.eqb_spec h a) as [->|N].
    + intros E Ek. inversion E; subst. rewrite Hk in Ek. inversion Ek; subst.
      rewrite Pos.eqb_refl, kind_eqb_refl. simpl. apply in_or_app. right. left. reflexivity.
    + intros Ha Hka. pose proof (mo_parent _ M _ _ _ Ha Hka) as Hin.
      destruct (Pos.eqb d d' && kind_eqb k' k) eqn:E; auto.
      apply andb_true_iff in E. destruct E as [E1 E2]. apply Pos.eqb_eq in E1. apply kind_eqb_eq in E2. subst.
      apply in_or_app. left. exact Hin.
Qed.

Lemma attach_elems d k h s s' u e x : attach d k h s = (s', inl u) -> get_elem s h = Some e -> get_doc s d = Some x ->
  (forall a, a <> h -> get_elem s' a = get_elem s a) /\
  exists e', get_elem s' h = Some e' /\ ekind e' = ekind e /\
    ((eid e' = eid e /\ (is_reserved (ekind e) (eid e) = true \/ new_id_for s x e = None)) \/
     (is_reserved (ekind e) (eid e) = false /\ new_id_for s x e = Some (eid e'))).
Proof.
  unfold attach. intros H He Hx. apply bind_ok in H. destruct H as ([] & s1 & H1 & H).
  apply bind_ok in H. destruct H as ([] & s2 & H2 & H3).
  apply m_modify_ok in H2. destruct H2 as (e1 & He1 & ->).
  apply push_member_ok in H3. destruct H3 as (x3 & Hx3 & ->).
  unfold assign_id in H1. rewrite He, Hx in H1.
  destruct (is_reserved (ekind e) (eid e)) eqn:Hr.
  - inversion H1; subst s1. rewrite He in He1. inversion He1; subst e1. split.
    + intros a Ha. rewrite get_putdoc, get_put_other; auto.
    + exists (set_parent e (Some d)). rewrite get_putdoc, get_put_same. repeat (split; auto).
  - destruct (new_id_for s x e) as [ni|] eqn:Hni; inversion H1; subst s1.
    + rewrite get_put_same in He1. inversion He1; subst e1. split.
      * intros a Ha. rewrite get_putdoc, get_put_other, get_put_other; auto.
      * exists (set_parent (with_id e ni) (Some d)). rewrite get_putdoc, get_put_same. split; auto.
        split; [simpl; apply with_id_kind|]. right. split; auto. simpl. rewrite eid_with_id. reflexivity.
    + rewrite He in He1. inversion He1; subst e1. split.
      * intros a Ha. rewrite get_putdoc, get_put_other; auto.
      * exists (set_parent e (Some d)). rewrite get_putdoc, get_put_same. repeat (split; auto).
Qed.

Lemma attach_U d k h s s' u : attach d k h s = (s', inl u) -> U s -> parent s h = None -> kindof s h = Some k -> U s'.
Proof.
  intros H (M & Un & Ok) Hp Hk.
  pose proof (attach_MemOk _ _ _ _ _ _ H M Hp Hk) as M'.
  pose proof (attach_views _ _ _ _ _ _ H) as (P1 & K1 & R1 & L1 & D1 & Dd & Hh).
  destruct (get_elem s h) as [e|] eqn:He; [|congruence]. destruct (get_doc s d) as [x|] eqn:Hx; [|congruence].
  assert (Ek : ekind e = k) by (unfold kindof in Hk; rewrite He in Hk; inversion Hk; auto).
  destruct (attach_elems _ _ _ _ _ _ _ _ H He Hx) as (Oth & e' & He' & Ke' & Hid).
  assert (Hnl : forall d' k', ~ In h (listed s d' k')).
  { intros d' k' Hin. apply (mo_listed _ M) in Hin. destruct Hin as [_ Hin]. congruence. }
  assert (Hmem : listed s d k = members x k) by (unfold listed; rewrite Hx; reflexivity).
  assert (Hnew : okid k (eid e') = true /\
                 (exempt k (eid e') = false -> forall h2 e2, In h2 (listed s d k) -> get_elem s h2 = Some e2 -> eid e2 <> eid e')).
  { destruct Hid as [[Eid Hwhy] | [Hr Hni]].
    - split; [rewrite Eid, <- Ek; apply (Ok h); auto|]. intros Hex. exfalso. rewrite Eid, <- Ek in Hex.
      destruct Hwhy as [Hr | Hnone].
      + unfold exempt in Hex. rewrite Hr in Hex. discriminate.
      + apply new_id_none in Hnone. destruct Hnone as [Hke Hs]. rewrite Hke in Hex.
        unfold exempt, is_reserved, is_undefined, is_silent_id in *. lia.
    - rewrite Hmem. rewrite <- Ek. apply (new_id_unique s x e (eid e')); auto.
      + apply (Ok h). exact He.
      + rewrite Ek, <- Hmem. apply (mo_nodup _ M).
      + rewrite Ek, <- Hmem. apply Un.
      + intros h2 e2 Hin He2. rewrite Ek, <- Hmem in Hin. apply (mo_listed _ M) in Hin. destruct Hin as [Hk2 _].
        unfold kindof in Hk2. rewrite He2 in Hk2. inversion Hk2 as [Hk2']. rewrite Ek, <- Hk2'. apply (Ok h2). exact He2. }
  destruct Hnew as [Hok' Hfresh].
  split; [exact M'|]. split.
  - intros d' k' h1 h2 e1 e2 H1 H2 Hne G1 G2 Hex. rewrite L1 in H1, H2.
    destruct (Pos.eqb d d' && kind_eqb k' k) eqn:Edk.
    + apply andb_true_iff in Edk. destruct Edk as [E1 E2]. apply Pos.eqb_eq in E1. apply kind_eqb_eq in E2. subst d' k'.
      apply in_app_iff in H1. apply in_app_iff in H2.
      destruct H1 as [H1 | [<- | []]], H2 as [H2 | [<- | []]].
      * assert (N1 : h1 <> h) by (intros ->; eapply Hnl; eauto). assert (N2 : h2 <> h) by (intros ->; eapply Hnl; eauto).
        rewrite Oth in G1, G2; auto. apply (Un d k h1 h2); auto.
      * assert (N1 : h1 <> h) by (intros ->; eapply Hnl; eauto). rewrite Oth in G1; auto.
        rewrite He' in G2. inversion G2; subst e2. intros E. rewrite E in Hex. apply (Hfresh Hex h1 e1 H1 G1). exact E.
      * assert (N2 : h2 <> h) by (intros ->; eapply Hnl; eauto). rewrite Oth in G2; auto.
        rewrite He' in G1. inversion G1; subst e1. intros E. apply (Hfresh Hex h2 e2 H2 G2). symmetry. exact E.
      * contradiction.
    + assert (N1 : h1 <> h) by (intros ->; eapply Hnl; eauto). assert (N2 : h2 <> h) by (intros ->; eapply Hnl; eauto).
      rewrite Oth in G1, G2; auto. apply (Un d' k' h1 h2); auto.
  - intros a ea Ha. destruct (Pos.eqb_spec a h) as [->|N].
    + rewrite He' in Ha. inversion Ha; subst ea. rewrite Ke', Ek. exact Hok'.
    + rewrite Oth in Ha; auto. apply (Ok a). exact Ha.
Qed.

(* ---------- Document::add ---------- *)
Definition pk (d : positive) (s s' : state) : Prop :=
  (forall a, parent s' a = parent s a \/ (parent s a = None /\ parent s' a = Some d)) /\
  (forall a, kindof s' a = kindof s a).
Lemma pk_refl d s : pk d s s.
Proof. split; auto. Qed.
Lemma pk_trans d a b c : pk d a b -> pk d b c -> pk d a c.
Proof.
  intros [P1 K1] [P2 K2]. split.
  - intros x. destruct (P2 x) as [E2 | [E2 F2]], (P1 x) as [E1 | [E1 F1]].
    + left. congruence.
    + right. split; congruence.
    + right. split; congruence.
    + congruence.
  - intros x. rewrite K2. apply K1.
Qed.
Lemma attach_pk d k h s s' u : attach d k h s = (s', inl u) -> parent s h = None -> pk d s s'.
Proof.
  intros H Hp. apply attach_views in H. destruct H as (P1 & K1 & _). split; auto.
  intros a. rewrite P1. destruct (Pos.eqb_spec h a) as [->|N]; auto.
Qed.

Section Add.
Variable P : plans.

Definition addU (f : nat) : Prop :=
  forall d h s s' b, doc_add P f d h s = (s', inl b) -> U s -> U s' /\ pk d s s'.

Lemma addU_list f d : addU f -> forall l s s' u,
  m_iter (fun r => doc_add P f d r ;;; ret tt) l s = (s', inl u) -> U s -> U s' /\ pk d s s'.
Proof.
  intros IH. induction l as [|r l IHl]; intros s s' u H Hu; simpl in H.
  - inversion H; subst. split; [auto|apply pk_refl].
  - apply bind_ok in H. destruct H as ([] & sa & Ha & Hb). apply bind_ok in Ha. destruct Ha as (b0 & sa' & Ha & Ha').
    inversion Ha'; subst. destruct (IH _ _ _ _ _ Ha Hu) as [U1 K1]. destruct (IHl _ _ _ Hb U1) as [U2 K2].
    split; [auto|eapply pk_trans; eauto].
Qed.
Lemma addU_lists f d (lists : refkind -> list positive) : addU f -> forall rks s s' u,
  m_iter (fun rk => m_iter (fun r => doc_add P f d r ;;; ret tt) (lists rk)) rks s = (s', inl u) -> U s -> U s' /\ pk d s s'.
Proof.
  intros IH. induction rks as [|rk rks IHr]; intros s s' u H Hu; simpl in H.
  - inversion H; subst. split; [auto|apply pk_refl].
  - apply bind_ok in H. destruct H as ([] & sa & Ha & Hb).
    destruct (addU_list f d IH _ _ _ _ Ha Hu) as [U1 K1]. destruct (IHr _ _ _ Hb U1) as [U2 K2].
    split; [auto|eapply pk_trans; eauto].
Qed.

Lemma addU_all f : addU f.
Proof.
  induction f as [|f IH]; intros d h s s' b H Hu; cbn [doc_add] in H; [discriminate|].
  apply bind_ok in H. destruct H as (e & s0 & H0 & H). apply m_get_ok in H0. destruct H0 as [-> He].
  destruct (eparent e) as [d'|] eqn:Hp.
  - destruct (Pos.eqb d' d); [|discriminate]. inversion H; subst. split; [auto|apply pk_refl].
  - assert (Hpar : parent s h = None) by (rewrite (parent_of_get _ _ _ He); exact Hp).
    assert (Gen : forall k, ekind e = k ->
              (assign_id d h ;;; m_modify h (fun e0 => set_parent e0 (Some d)) ;;; push_member d k h ;;;
               m_iter (fun rk => m_iter (fun r => doc_add P f d r ;;; ret tt) (erefs e rk)) (add_plan P k) ;;;
               ret true) s = (s', inl b) -> U s' /\ pk d s s').
    { intros k Hk Hg. apply bind_ok in Hg. destruct Hg as ([] & s1 & H1 & Hg).
      apply bind_ok in Hg. destruct Hg as ([] & s2 & H2 & Hg).
      apply bind_ok in Hg. destruct Hg as ([] & s3 & H3 & Hg).
      apply bind_ok in Hg. destruct Hg as ([] & s4 & H4 & H5). inversion H5; subst s4.
      pose proof (attach_intro _ _ _ _ _ _ _ _ _ _ H1 H2 H3) as Hat.
      assert (Hkk : kindof s h = Some k) by (rewrite (kindof_of_get _ _ _ He), Hk; reflexivity).
      pose proof (attach_U _ _ _ _ _ _ Hat Hu Hpar Hkk) as U3.
      destruct (addU_lists f d (erefs e) IH _ _ _ _ H4 U3) as [U4 K4].
      split; [auto|]. eapply pk_trans; [eapply attach_pk; eauto|exact K4]. }
    destruct (ekind e) eqn:Hk; try (apply (Gen _ eq_refl H)).
    apply bind_ok in H. destruct H as ([] & sA & HA & H).
    assert (A : U sA /\ pk d s sA).
    { destruct (single (erefs e TrackStream)) as [st|].
      - apply bind_ok in HA. destruct HA as (b0 & sA' & HA & HA'). inversion HA'; subst. eapply IH; eauto.
      - inversion HA; subst. split; [auto|apply pk_refl]. }
    destruct A as [UA KA].
    apply bind_ok in H. destruct H as (ms & sB & HB & H). apply members_of_ok in HB. destruct HB as [-> ->].
    destruct (mem h (listed sA d KTrack)) eqn:Em; [inversion H; subst; auto|].
    apply bind_ok in H. destruct H as ([] & s1 & H1 & H).
    apply bind_ok in H. destruct H as ([] & s2 & H2 & H).
    apply bind_ok in H. destruct H as ([] & s3 & H3 & H4). inversion H4; subst.
    pose proof (attach_intro _ _ _ _ _ _ _ _ _ _ H1 H2 H3) as Hat.
    assert (HkA : kindof sA h = Some KTrack).
    { destruct KA as [_ KK]. rewrite KK, (kindof_of_get _ _ _ He), Hk. reflexivity. }
    assert (HpA : parent sA h = None).
    { destruct KA as [PP _]. destruct (PP h) as [E | [_ E]]; [congruence|].
      exfalso. destruct UA as (MA & _). pose proof (mo_parent _ MA _ _ _ E HkA) as Hin. apply mem_In in Hin. congruence. }
    split; [eapply attach_U; eauto|]. eapply pk_trans; [exact KA|eapply attach_pk; eauto].
Qed.
End Add.

(* ---------- success-only preservation of U, compositionally ---------- *)
Definition upres {A} (m : M A) : Prop := forall s s' a, m s = (s', inl a) -> U s -> U s'.

Lemma upres_bind {A B} (m : M A) (f : A -> M B) : upres m -> (forall a, upres (f a)) -> upres (bind m f).
Proof. intros Hm Hf s s' b H Hu. apply bind_ok in H. destruct H as (a & s1 & H1 & H2). eapply Hf; eauto. Qed.
Lemma upres_ro {A} (m : M A) : (forall s s' a, m s = (s', inl a) -> s' = s) -> upres m.
Proof. intros H s s' a E Hu. rewrite (H _ _ _ E). exact Hu. Qed.
Lemma upres_ret {A} (a : A) : upres (ret a).
Proof. apply upres_ro. intros s s' b H. inversion H; auto. Qed.
Lemma upres_throw {A} e : upres (@throw A e).
Proof. intros s s' a H. discriminate. Qed.
Lemma upres_get h : upres (m_get h).
Proof. apply upres_ro. intros s s' a H. apply m_get_ok in H. tauto. Qed.
Lemma upres_refs_of h rk : upres (refs_of h rk).
Proof. apply upres_ro. intros s s' a H. apply refs_of_ok in H. tauto. Qed.
Lemma upres_parent_of h : upres (parent_of h).
Proof. apply upres_ro. intros s s' a H. apply parent_of_ok in H. tauto. Qed.
Lemma upres_cycle_guard rk a b : upres (cycle_guard rk a b).
Proof. apply upres_ro. intros s s' u H. eapply cycle_guard_ok; eauto. Qed.
Lemma upres_is_silent h : upres (is_silent h).
Proof. apply upres_ro. intros s s' u H. eapply is_silent_ok; eauto. Qed.
Lemma upres_iter {A} (f : A -> M unit) l : (forall x, upres (f x)) -> upres (m_iter f l).
Proof. intros Hf. induction l as [|x l IH]; simpl; [apply upres_ret|]. apply upres_bind; auto. Qed.

(* changing anything of an element but its kind, parent and ID keeps the invariant *)
Lemma U_put s h e e' : get_elem s h = Some e -> ekind e' = ekind e -> eparent e' = eparent e -> eid e' = eid e ->
  U s -> U (put_elem s h e').
Proof.
  intros He Hk Hp Hi (M & Un & Ok).
  assert (Pp : forall a, parent (put_elem s h e') a = parent s a).
  { intros a. rewrite parent_put. destruct (Pos.eqb_spec h a) as [->|N]; auto. rewrite (parent_of_get _ _ _ He). exact Hp. }
  assert (Kk : forall a, kindof (put_elem s h e') a = kindof s a).
  { intros a. rewrite kindof_put. destruct (Pos.eqb_spec h a) as [->|N]; auto. rewrite (kindof_of_get _ _ _ He). f_equal. exact Hk. }
  assert (Ll : forall d k, listed (put_elem s h e') d k = listed s d k) by (intros; apply listed_put_elem).
  assert (Ge : forall a ea, get_elem (put_elem s h e') a = Some ea ->
                 exists eb, get_elem s a = Some eb /\ ekind ea = ekind eb /\ eid ea = eid eb).
  { intros a ea Ha. destruct (Pos.eqb_spec h a) as [->|N].
    - rewrite get_put_same in Ha. inversion Ha; subst ea. exists e. auto.
    - rewrite get_put_other in Ha; auto. exists ea. auto. }
  split; [|split].
  - constructor.
    + intros d k. rewrite Ll. apply (mo_nodup _ M).
    + intros d k a. rewrite Ll, Kk, Pp. apply (mo_listed _ M).
    + intros a d k. rewrite Ll, Kk, Pp. apply (mo_parent _ M).
  - intros d k h1 h2 e1 e2 H1 H2 Hne G1 G2 Hex. rewrite Ll in H1, H2.
    destruct (Ge _ _ G1) as (b1 & B1 & _ & I1). destruct (Ge _ _ G2) as (b2 & B2 & _ & I2).
    rewrite I1, I2. rewrite I1 in Hex. apply (Un d k h1 h2); auto.
  - intros a ea Ha. destruct (Ge _ _ Ha) as (eb & Hb & K1 & I1). rewrite K1, I1. apply (Ok a). exact Hb.
Qed.

Lemma upres_set_refs_of a rk l : upres (set_refs_of a rk l).
Proof.
  intros s s' u H Hu. unfold set_refs_of in H. apply m_modify_ok in H. destruct H as (e & He & ->).
  apply (U_put s a e); auto.
Qed.

Section OpsU.
Variable P : plans.

Lemma upres_doc_add_top d h : upres (doc_add_top P d h).
Proof. intros s s' b H Hu. unfold doc_add_top in H. eapply addU_all; eauto. Qed.
Lemma upres_auto_parent a b : upres (auto_parent P a b).
Proof.
  unfold auto_parent. apply upres_bind; [apply upres_parent_of|intros pa].
  apply upres_bind; [apply upres_parent_of|intros pb].
  destruct pa, pb; try apply upres_ret.
  - apply upres_bind; [apply upres_doc_add_top|intros _; apply upres_ret].
  - apply upres_bind; [apply upres_doc_add_top|intros _; apply upres_ret].
Qed.

Ltac ustep :=
  first [ apply upres_ret | apply upres_throw | apply upres_get | apply upres_refs_of | apply upres_parent_of
        | apply upres_cycle_guard | apply upres_is_silent | apply upres_set_refs_of | apply upres_auto_parent ].
Ltac uwalk :=
  repeat first [ ustep | (apply upres_bind; [|intro]) | (apply upres_iter; intro)
               | match goal with
                 | |- upres (if ?c then _ else _) => destruct c
                 | |- upres (match ?c with _ => _ end) => destruct c
                 end ].

Lemma upres_track_unset t : upres (track_unset_stream t).
Proof. unfold track_unset_stream. uwalk. Qed.
Lemma upres_stream_remove st t : upres (stream_remove_track st t).
Proof. unfold stream_remove_track. uwalk; try apply upres_track_unset. Qed.
Lemma upres_track_set_inner t st : upres (track_set_stream_inner P t st).
Proof. unfold track_set_stream_inner. uwalk; try apply upres_track_unset. Qed.
Lemma upres_stream_add st t : upres (stream_add_track P st t).
Proof. unfold stream_add_track. uwalk; try apply upres_track_set_inner. Qed.
Lemma upres_track_set t st : upres (track_set_stream P t st).
Proof. unfold track_set_stream. uwalk; try apply upres_track_unset. Qed.

Lemma upres_add_ref rk a b : upres (add_ref P rk a b).
Proof. unfold add_ref. uwalk; try apply upres_stream_add. Qed.
Lemma upres_set_ref rk a b : upres (set_ref P rk a b).
Proof. unfold set_ref. uwalk; try apply upres_track_set. Qed.
Lemma upres_remove_ref rk a b : upres (remove_ref rk a b).
Proof. unfold remove_ref. uwalk; try apply upres_stream_remove. Qed.
Lemma upres_unset_ref rk a : upres (unset_ref rk a).
Proof. unfold unset_ref. uwalk; try apply upres_track_unset. Qed.
Lemma upres_clear_refs rk a : upres (clear_refs rk a).
Proof. unfold clear_refs. uwalk; try apply upres_track_unset. Qed.
End OpsU.

(* ---------- set(Id), new elements, new documents, getSilent ---------- *)
Lemma id_eqb_false_ne a b : id_eqb a b = false -> a <> b.
Proof. intros H E. subst. unfold id_eqb in H. rewrite !N.eqb_refl in H. discriminate. Qed.
Lemma id_eqb_true_eq a b : id_eqb a b = true -> a = b.
Proof. destruct a, b. unfold id_eqb. simpl. intros H. f_equal; lia. Qed.

Lemma U_set_id s h e e' i : get_elem s h = Some e -> ekind e' = ekind e -> eparent e' = eparent e -> eid e' = i ->
  okid (ekind e) i = true ->
  (exempt (ekind e) i = false -> forall d h2 e2, parent s h = Some d -> In h2 (listed s d (ekind e)) -> h2 <> h ->
     get_elem s h2 = Some e2 -> eid e2 <> i) ->
  U s -> U (put_elem s h e').
Proof.
  intros He Hk Hp Hi Hok Hfresh (M & Un & Ok).
  assert (Pp : forall a, parent (put_elem s h e') a = parent s a).
  { intros a. rewrite parent_put. destruct (Pos.eqb_spec h a) as [->|N]; auto. rewrite (parent_of_get _ _ _ He). exact Hp. }
  assert (Kk : forall a, kindof (put_elem s h e') a = kindof s a).
  { intros a. rewrite kindof_put. destruct (Pos.eqb_spec h a) as [->|N]; auto. rewrite (kindof_of_get _ _ _ He). f_equal. exact Hk. }
  assert (Ll : forall d k, listed (put_elem s h e') d k = listed s d k) by (intros; apply listed_put_elem).
  assert (Hh : forall d k, In h (listed s d k) -> k = ekind e /\ parent s h = Some d).
  { intros d k Hin. apply (mo_listed _ M) in Hin. destruct Hin as [Hkk Hpp]. rewrite (kindof_of_get _ _ _ He) in Hkk.
    inversion Hkk. auto. }
  split; [|split].
  - constructor.
    + intros d k. rewrite Ll. apply (mo_nodup _ M).
    + intros d k a. rewrite Ll, Kk, Pp. apply (mo_listed _ M).
    + intros a d k. rewrite Ll, Kk, Pp. apply (mo_parent _ M).
  - intros d k h1 h2 e1 e2 H1 H2 Hne G1 G2 Hex. rewrite Ll in H1, H2.
    destruct (Pos.eqb_spec h1 h) as [->|N1]; [|destruct (Pos.eqb_spec h2 h) as [->|N2]].
    + destruct (Hh _ _ H1) as [-> Hpd]. rewrite get_put_same in G1. inversion G1; subst e1.
      rewrite get_put_other in G2; auto. rewrite Hi in *. intros E. apply (Hfresh Hex d h2 e2); auto.
    + destruct (Hh _ _ H2) as [-> Hpd]. rewrite get_put_same in G2. inversion G2; subst e2.
      rewrite get_put_other in G1; auto. rewrite Hi. intros E. rewrite E in Hex. apply (Hfresh Hex d h1 e1); auto.
    + rewrite get_put_other in G1, G2; auto. apply (Un d k h1 h2); auto.
  - intros a ea Ha. destruct (Pos.eqb_spec h a) as [->|N].
    + rewrite get_put_same in Ha. inversion Ha; subst ea. rewrite Hk, Hi. exact Hok.
    + rewrite get_put_other in Ha; auto. apply (Ok a). exact Ha.
Qed.

Lemma set_id_U h i s s' u : set_id h i s = (s', inl u) -> U s ->
  (forall e, get_elem s h = Some e -> okid (ekind e) i = true) -> U s'.
Proof.
  unfold set_id. intros H Hu Hok. apply bind_ok in H. destruct H as (e & s0 & H0 & H).
  apply m_get_ok in H0. destruct H0 as [-> He]. specialize (Hok e He).
  assert (Plain : forall f : elem -> elem,
            (forall e0, ekind (f e0) = ekind e0 /\ eparent (f e0) = eparent e0 /\ eid (f e0) = i) ->
            (exempt (ekind e) i = false -> forall d h2 e2, parent s h = Some d -> In h2 (listed s d (ekind e)) -> h2 <> h ->
               get_elem s h2 = Some e2 -> eid e2 <> i) ->
            m_modify h f s = (s', inl u) -> U s').
  { intros f Hf Hfresh Hm. apply m_modify_ok in Hm. destruct Hm as (e0 & He0 & ->).
    rewrite He in He0. inversion He0; subst e0. destruct (Hf e) as (F1 & F2 & F3).
    apply (U_set_id s h e (f e) i); auto. }
  destruct (is_undefined (ekind e) i) eqn:Hund.
  - apply (Plain (fun e0 => set_eid e0 i)); auto.
    intros Hex. unfold exempt in Hex. rewrite Hund, orb_true_r in Hex. discriminate.
  - apply bind_ok in H. destruct H as (found & s1 & H1 & H).
    assert (Hfresh : s1 = s /\ (found = None -> forall d h2 e2, parent s h = Some d -> In h2 (listed s d (ekind e)) -> h2 <> h ->
               get_elem s h2 = Some e2 -> eid e2 <> i)).
    { destruct (eparent e) as [d0|] eqn:Hp.
      - pose proof (lookup_ok _ _ _ _ _ _ H1) as ->. split; auto. intros -> d h2 e2 Hd Hin _ He2.
        rewrite (parent_of_get _ _ _ He), Hp in Hd. inversion Hd; subst d0.
        unfold lookup in H1. unfold listed in Hin. destruct (get_doc s d) as [x|]; [|contradiction].
        assert (Hl : lookup_in s (members x (ekind e)) i = None) by (inversion H1; auto).
        apply id_eqb_false_ne. rewrite lookup_in_none in Hl. eapply Hl; eauto.
      - inversion H1; subst. split; auto. intros _ d h2 e2 Hd. rewrite (parent_of_get _ _ _ He), Hp in Hd. discriminate. }
    destruct Hfresh as [-> Hfresh]. destruct found; [discriminate|]. specialize (Hfresh eq_refl).
    destruct (ekind e) eqn:Hk; try (apply (Plain (fun e0 => set_eid e0 i)); auto; fail).
    + destruct (ity i =? etd e); [|discriminate]. apply (Plain (fun e0 => set_eid e0 i)); auto.
    + destruct (ity i =? etd e); [|discriminate]. apply (Plain (fun e0 => renumber_blocks (set_eid e0 i) (ival i))); auto.
    + destruct (is_silent_id i && _); [discriminate|]. apply (Plain (fun e0 => set_eid e0 i)); auto.
Qed.

Lemma U_new s h k i td hoa : get_elem s h = None -> okid k i = true -> U s -> U (put_elem s h (new_elem k i td hoa)).
Proof.
  intros Hn Hok (M & Un & Ok). set (s' := put_elem s h (new_elem k i td hoa)).
  assert (Ll : forall d k', listed s' d k' = listed s d k') by (intros; apply listed_put_elem).
  assert (Hnl : forall d k', ~ In h (listed s d k')).
  { intros d k' Hin. apply (mo_listed _ M) in Hin. destruct Hin as [Hkk _]. unfold kindof in Hkk. rewrite Hn in Hkk. discriminate. }
  split; [|split].
  - constructor.
    + intros d k'. rewrite Ll. apply (mo_nodup _ M).
    + intros d k' a. rewrite Ll. intros Hin. assert (a <> h) by (intros ->; eapply Hnl; eauto).
      unfold s'. rewrite kindof_put, parent_put. destruct (Pos.eqb_spec h a); [congruence|]. apply (mo_listed _ M); auto.
    + intros a d k'. rewrite Ll. unfold s'. rewrite kindof_put, parent_put. destruct (Pos.eqb_spec h a); [discriminate|].
      apply (mo_parent _ M).
  - intros d k' h1 h2 e1 e2 H1 H2 Hne G1 G2 Hex. rewrite Ll in H1, H2.
    assert (h1 <> h) by (intros ->; eapply Hnl; eauto). assert (h2 <> h) by (intros ->; eapply Hnl; eauto).
    unfold s' in G1, G2. rewrite get_put_other in G1, G2; auto. apply (Un d k' h1 h2); auto.
  - intros a ea Ha. unfold s' in Ha. destruct (Pos.eqb_spec h a) as [->|N].
    + rewrite get_put_same in Ha. inversion Ha; subst ea. exact Hok.
    + rewrite get_put_other in Ha; auto. apply (Ok a). exact Ha.
Qed.

Lemma U_newdoc s d : get_doc s d = None -> U s -> U (put_doc s d empty_doc).
Proof.
  intros Hn (M & Un & Ok).
  assert (Ll : forall d' k, listed (put_doc s d empty_doc) d' k = listed s d' k).
  { intros d' k. rewrite listed_put_doc. destruct (Pos.eqb_spec d d') as [->|N]; auto. unfold listed. rewrite Hn. reflexivity. }
  split; [|split].
  - constructor.
    + intros d' k. rewrite Ll. apply (mo_nodup _ M).
    + intros d' k a. rewrite Ll, kindof_put_doc, parent_put_doc. apply (mo_listed _ M).
    + intros a d' k. rewrite Ll, kindof_put_doc, parent_put_doc. apply (mo_parent _ M).
  - intros d' k h1 h2 e1 e2 H1 H2 Hne G1 G2 Hex. rewrite Ll in H1, H2. rewrite get_putdoc in G1, G2. apply (Un d' k h1 h2); auto.
  - intros a ea Ha. rewrite get_putdoc in Ha. apply (Ok a). exact Ha.
Qed.

Lemma get_silent_U hnew d s s' r : get_silent hnew d s = (s', inl r) -> U s -> U s'.
Proof.
  unfold get_silent. intros H Hu. apply bind_ok in H. destruct H as (found & s1 & H1 & H).
  assert (s1 = s) by (destruct d; [eapply lookup_ok; eauto|inversion H1; auto]). subst s1.
  destruct found; [inversion H; subst; auto|].
  destruct (get_elem s hnew) eqn:E; inversion H; subst. apply U_new; auto.
Qed.

(* ---------- Document::remove, through its specification ---------- *)
Section RemoveU.
Variable P : plans.
Hypothesis Hrem : remove_plan_complete P = true.
Hypothesis Htyped : plans_typed P = true.
Hypothesis Huid : uid_rule P = true.

Lemma remove_U d h s s' r : doc_remove P d h s = (s', inl r) -> WF s -> U s -> U s'.
Proof.
  intros H W (M & Un & Ok). destruct r.
  - destruct (doc_remove_spec P Hrem Htyped Huid h d s s' H W) as (W' & Ph & _ & Hoth & Hself & Hlist).
    assert (Ge : forall a ea, get_elem s' a = Some ea -> exists eb, get_elem s a = Some eb /\ ekind ea = ekind eb /\ eid ea = eid eb).
    { intros a ea Ha. destruct (Pos.eqb_spec a h) as [->|N].
      - rewrite Ha in Hself. destruct (get_elem s h) as [e|]; [|contradiction]. exists e. split; auto.
        unfold norefs in Hself. simpl in Hself. inversion Hself. auto.
      - specialize (Hoth a N). rewrite Ha in Hoth. destruct (get_elem s a) as [eb|]; [|contradiction]. exists eb. split; auto.
        destruct Hoth as [Hn _]. unfold norefs in Hn. inversion Hn. auto. }
    assert (Hinc : forall d' k', incl (listed s' d' k') (listed s d' k')).
    { intros d' k'. destruct (get_elem s h) as [e|] eqn:He; [|contradiction].
      rewrite (Hlist (ekind e) (kindof_of_get _ _ _ He)).
      destruct (Pos.eqb d d' && kind_eqb k' (ekind e)) eqn:E; [|apply incl_refl].
      apply andb_true_iff in E. destruct E as [E1 E2]. apply Pos.eqb_eq in E1. apply kind_eqb_eq in E2. subst.
      apply erase_first_incl. }
    split; [destruct W' as [[M' _] _]; exact M'|]. split.
    + intros d' k' h1 h2 e1 e2 H1 H2 Hne G1 G2 Hex.
      destruct (Ge _ _ G1) as (b1 & B1 & _ & I1). destruct (Ge _ _ G2) as (b2 & B2 & _ & I2).
      rewrite I1, I2. rewrite I1 in Hex. apply (Un d' k' h1 h2); auto; apply Hinc; auto.
    + intros a ea Ha. destruct (Ge _ _ Ha) as (eb & Hb & K1 & I1). rewrite K1, I1. apply (Ok a). exact Hb.
  - assert (s' = s); [|subst; split; [exact M|split; [exact Un|exact Ok]]].
    unfold doc_remove in H. apply bind_ok in H. destruct H as (e & s0 & H0 & H).
    apply m_get_ok in H0. destruct H0 as [-> He].
    apply bind_ok in H. destruct H as (x & s0 & H0 & H). apply m_getdoc_ok in H0. destruct H0 as [-> Hx].
    destruct (mem h (members x (ekind e))); simpl in H; [|inversion H; auto].
    apply bind_ok in H. destruct H as ([] & s1 & _ & H). apply bind_ok in H. destruct H as ([] & s2 & _ & H).
    apply bind_ok in H. destruct H as ([] & s3 & _ & H). apply ret_ok in H. destruct H as [_ H]. discriminate.
Qed.
End RemoveU.

(* ---------- every call, every history ---------- *)
Definition op_ok (s : state) (o : op) : Prop :=
  match o with OSetId h i => forall e, get_elem s h = Some e -> okid (ekind e) i = true | _ => True end.
Definition op_ok_b (s : state) (o : op) : bool :=
  match o with
  | OSetId h i => match get_elem s h with Some e => okid (ekind e) i | None => true end
  | _ => true
  end.
Lemma op_ok_b_sound s o : op_ok_b s o = true -> op_ok s o.
Proof. destruct o; simpl; auto. intros H e He. rewrite He in H. exact H. Qed.

Section Step.
Variable P : plans.
Hypothesis Hplan : add_plan_complete P = true.
Hypothesis Hrem : remove_plan_complete P = true.
Hypothesis Htyped : plans_typed P = true.
Hypothesis Huid : uid_rule P = true.

Theorem uniq_step o s s' v : WF s -> U s -> op_ok s o -> exec P o s = (s', inl v) -> U s'.
Proof.
  intros W Hu Hop H. destruct o; simpl in H.
  - destruct (get_doc s d) eqn:E; inversion H; subst. apply U_newdoc; auto.
  - destruct (get_elem s h) eqn:E; inversion H; subst. apply U_new; auto. destruct k; reflexivity.
  - apply bind_ok in H. destruct H as (x & s1 & H1 & H). apply m_getdoc_ok in H1. destruct H1 as [-> _].
    apply lift_ok in H. destruct H as [b0 H]. eapply upres_doc_add_top; eauto.
  - apply lift_ok in H. destruct H as [b0 H]. eapply remove_U; eauto.
  - apply lift_ok in H. destruct H as [b0 H]. eapply upres_add_ref; eauto.
  - apply bind_ok in H. destruct H as (ea & s1 & H1 & H). apply m_get_ok in H1. destruct H1 as [-> _].
    apply bind_ok in H. destruct H as (eb & s1 & H1 & H). apply m_get_ok in H1. destruct H1 as [-> _].
    destruct (negb _); [discriminate|]. apply lift_ok in H. destruct H as [b' H]. eapply upres_remove_ref; eauto.
  - apply lift_ok in H. destruct H as [b' H]. eapply upres_set_ref; eauto.
  - apply bind_ok in H. destruct H as (ea & s1 & H1 & H). apply m_get_ok in H1. destruct H1 as [-> _].
    destruct (negb _); [discriminate|]. apply lift_ok in H. destruct H as [b' H]. eapply upres_unset_ref; eauto.
  - apply bind_ok in H. destruct H as (ea & s1 & H1 & H). apply m_get_ok in H1. destruct H1 as [-> _].
    destruct (negb _); [discriminate|]. apply lift_ok in H. destruct H as [b' H]. eapply upres_clear_refs; eauto.
  - apply lift_ok in H. destruct H as [b' H]. eapply set_id_U; eauto.
  - apply lift_ok in H. destruct H as [b' H]. eapply get_silent_U; eauto.
  - apply lift_ok in H. destruct H as [b' H]. apply lookup_ok in H. subst. exact Hu.
Qed.
End Step.

Lemma empty_U : U empty_state.
Proof.
  destruct empty_wf as [[M _] _]. split; [exact M|]. split.
  - intros d k h1 h2 e1 e2 H1. unfold listed, get_doc, empty_state in H1. simpl in H1. rewrite PM.gempty in H1. contradiction.
  - intros h e He. unfold get_elem, empty_state in He. simpl in He. rewrite PM.gempty in He. discriminate.
Qed.

(* the guard on a history: every ID passed to set(Id) has the shape of its C++ type *)
Fixpoint shaped_run (P : plans) (ops : list op) (s : state) : Prop :=
  match ops with
  | [] => True
  | o :: r => op_ok s o /\ match exec P o s with (s1, inl _) => shaped_run P r s1 | (_, inr _) => True end
  end.
Fixpoint shaped_run_b (P : plans) (ops : list op) (s : state) : bool :=
  match ops with
  | [] => true
  | o :: r => op_ok_b s o && match exec P o s with (s1, inl _) => shaped_run_b P r s1 | (_, inr _) => true end
  end.
Lemma shaped_run_b_sound P : forall ops s, shaped_run_b P ops s = true -> shaped_run P ops s.
Proof.
  induction ops as [|o r IH]; intros s H; simpl in *; auto. apply andb_true_iff in H. destruct H as [H1 H2].
  split; [apply op_ok_b_sound; exact H1|]. destruct (exec P o s) as [s1 [v|e]]; auto.
Qed.

Theorem uniq_invariant P : add_plan_complete P = true -> remove_plan_complete P = true -> plans_typed P = true ->
  uid_rule P = true -> forall ops s s', WF s -> U s -> shaped_run P ops s -> run_succ P ops s = Some s' -> WF s' /\ U s'.
Proof.
  intros H1 H2 H3 H4. induction ops as [|o r IH]; intros s s' W Hu Hok H; simpl in H; [inversion H; subst; auto|].
  simpl in Hok. destruct Hok as [Ho Hr]. destruct (exec P o s) as [s1 [v|e]] eqn:E; [|discriminate].
  eapply IH; [| | |exact H]; auto.
  - eapply wf_step; eauto.
  - eapply uniq_step; eauto.
Qed.

(* lookup agrees with the IDs: for an ID that is not exempt it returns exactly the member carrying it *)
Theorem lookup_unique s d x k i h e : U s -> get_doc s d = Some x -> In h (members x k) -> get_elem s h = Some e ->
  eid e = i -> exempt k i = false -> lookup d k i s = (s, inl (Some h)).
Proof.
  intros (M & Un & Ok) Hx Hin He Hi Hex. unfold lookup. rewrite Hx. f_equal. f_equal.
  destruct (lookup_in s (members x k) i) as [h'|] eqn:El.
  - f_equal. apply lookup_in_some in El. destruct El as (Hin' & e' & He' & Hid). apply id_eqb_true_eq in Hid.
    destruct (Pos.eqb_spec h' h) as [->|N]; auto. exfalso.
    assert (Hl : listed s d k = members x k) by (unfold listed; rewrite Hx; reflexivity).
    apply (Un d k h h' e e'); auto; try (rewrite Hl; auto); congruence.
  - exfalso. rewrite lookup_in_none in El. specialize (El h e Hin He). apply id_eqb_false_ne in El. contradiction.
Qed.

Lemma exempt_meaning k i : exempt k i = false <->
  is_reserved k i = false /\ is_undefined k i = false /\ (k = KUid -> is_silent_id i = false /\ ival i < uid_undef_val).
Proof.
  unfold exempt. destruct k; unfold is_reserved, is_undefined, is_silent_id, uid_undef_val; split.
  all: try (intros H; repeat split; try discriminate; lia).
  all: intros (H1 & H2 & H3); try lia.
Qed.

(* ---------- the invariant and the guard as computations (run by the correspondence check on every generated history) ---------- *)
Fixpoint distinct_b (l : list idv) : bool :=
  match l with [] => true | x :: r => negb (existsb (id_eqb x) r) && distinct_b r end.
Definition uniq_list_b (s : state) (k : kind) (l : list positive) : bool :=
  distinct_b (filter (fun i => negb (exempt k i)) (ids_of s l)).
Definition uniq_b (s : state) : bool :=
  forallb (fun dx => forallb (fun k => uniq_list_b s k (members (snd dx) k)) all_kinds) (PM.elements (docs s)).

Lemma id_eqb_refl i : id_eqb i i = true.
Proof. unfold id_eqb. rewrite !N.eqb_refl. reflexivity. Qed.

Lemma distinct_b_sound s (q : idv -> bool) : forall l, distinct_b (filter q (ids_of s l)) = true -> NoDup l ->
  forall h1 h2 e1 e2, In h1 l -> In h2 l -> h1 <> h2 -> get_elem s h1 = Some e1 -> get_elem s h2 = Some e2 ->
    q (eid e1) = true -> eid e1 <> eid e2.
Proof.
  induction l as [|h l IH]; intros Hd Hn h1 h2 e1 e2 H1 H2 Hne G1 G2 Q1 E; [contradiction|].
  inversion Hn as [|? ? Hnh Hn']; subst.
  cbn [ids_of fold_right] in Hd. fold (ids_of s l) in Hd.
  assert (Tail : distinct_b (filter q (ids_of s l)) = true).
  { destruct (get_elem s h) as [e|]; [|exact Hd]. cbn [filter] in Hd. destruct (q (eid e)); [|exact Hd].
    cbn [distinct_b] in Hd. apply andb_true_iff in Hd. tauto. }
  assert (Head : forall e a ea, get_elem s h = Some e -> q (eid e) = true -> In a l -> get_elem s a = Some ea ->
                   eid ea = eid e -> False).
  { intros e a ea He Qe Ha Hea Eq. rewrite He in Hd. cbn [filter] in Hd. rewrite Qe in Hd. cbn [distinct_b] in Hd.
    apply andb_true_iff in Hd. destruct Hd as [Hd _]. apply negb_true_iff in Hd.
    assert (existsb (id_eqb (eid e)) (filter q (ids_of s l)) = true); [|congruence].
    apply existsb_exists. exists (eid ea). split; [|rewrite Eq; apply id_eqb_refl].
    apply filter_In. split; [apply ids_of_in; exists a, ea; auto|rewrite Eq; exact Qe]. }
  destruct H1 as [<- | H1], H2 as [<- | H2].
  - contradiction.
  - apply (Head e1 h2 e2); auto.
  - apply (Head e2 h1 e1); auto. rewrite <- E. exact Q1.
  - apply (IH Tail Hn' h1 h2 e1 e2); auto.
Qed.

Theorem uniq_b_sound s : uniq_b s = true -> (forall d k, NoDup (listed s d k)) -> Uniq s.
Proof.
  intros H Hn d k h1 h2 e1 e2 H1 H2 Hne G1 G2 Hex. unfold listed in H1, H2. specialize (Hn d k). unfold listed in Hn.
  destruct (get_doc s d) as [x|] eqn:Hx; [|contradiction].
  unfold uniq_b in H. rewrite forallb_forall in H. specialize (H (d, x) (PM.elements_correct _ _ Hx)).
  rewrite forallb_forall in H. specialize (H k (all_kinds_complete k)). simpl in H.
  apply (distinct_b_sound s (fun i => negb (exempt k i)) (members x k) H Hn h1 h2 e1 e2); auto.
  rewrite Hex. reflexivity.
Qed.
