(* Codec/IdCodecDefs.v - executable model of include/adm/detail/id_parser.hpp
   (IDParser<IdT>::validate/parse, detail::formatId) generic over a format
   descriptor, plus the FrameFormatId short/long dispatch of
   src/serial/frame_format_id.cpp.  Descriptors are generated from the
   IdTraits/IdSection specialisations by tools/translate.py (gen/IdTraitsGen.v). *)
From Adm Require Export Base.Util.
Local Open Scope N_scope.

(* one IdSection: identifier character and the RangeValidator of its value type, if any *)
Record section := { sec_ident : byte; sec_range : option (N * N) }.
Record fmt_desc := { fd_name : str; fd_format : str; fd_sections : list section }.

(* id::parse_hex character classes *)
Definition hexval (c : byte) : option N :=
  if (48 <=? c) && (c <=? 57) then Some (c - 48)
  else if (97 <=? c) && (c <=? 102) then Some (c - 87)
  else if (65 <=? c) && (c <=? 70) then Some (c - 55)
  else None.

(* formatHex digit: charValue < 10 ? '0' + charValue : ('a' - 10) + charValue *)
Definition hexdigit (d : N) : byte := if d <? 10 then 48 + d else 87 + d.

(* id::find_first: index of first occurrence, or the length *)
Fixpoint find_first (fmt : str) (c : byte) : nat :=
  match fmt with
  | [] => O
  | x :: r => if x =? c then O else S (find_first r c)
  end.

(* id::find_last: i = strlen; while (i != 0) if (format[--i] == c) break; return i
   (0 when the character does not occur) *)
Fixpoint find_last_from (fmt : str) (c : byte) (i : nat) : nat :=
  match i with
  | O => O
  | S j => if nth j fmt 0 =? c then j else find_last_from fmt c j
  end.
Definition find_last (fmt : str) (c : byte) : nat := find_last_from fmt c (length fmt).

Definition us : byte := 95. (* '_' *)
Definition prefix_length (fmt : str) : nat := S (find_first fmt us).
Definition underscore_position (fmt : str) : nat :=
  (find_first (skipn (prefix_length fmt) fmt) us + prefix_length fmt)%nat.
Definition has_underscore (fmt : str) : bool :=
  negb (Nat.eqb (underscore_position fmt) (length fmt)).

Definition seg_first (d : fmt_desc) (s : section) : nat := find_first (fd_format d) (sec_ident s).
Definition seg_size (d : fmt_desc) (s : section) : nat :=
  (S (find_last (fd_format d) (sec_ident s)) - seg_first d s)%nat.

(* id::parse_hex over the characters of one field: acc = (acc << 4) | c_value *)
Definition hex_step (acc : option N) (c : byte) : option N :=
  match acc, hexval c with
  | Some a, Some v => Some (a * 16 + v)
  | _, _ => None
  end.
Definition parse_hex_list (cs : str) : option N := fold_left hex_step cs (Some 0).

Definition range_ok (r : option (N * N)) (v : N) : bool :=
  match r with None => true | Some (lo, hi) => (lo <=? v) && (v <=? hi) end.

(* id::id_starts_with *)
Definition id_starts_with (id fmt : str) (plen : nat) : bool :=
  Nat.leb plen (length id) && str_eqb (firstn plen fmt) (firstn plen id).

Definition validate (d : fmt_desc) (id : str) : bool :=
  let fmt := fd_format d in
  id_starts_with id fmt (prefix_length fmt)                       (* check_prefix *)
  && Nat.eqb (length id) (length fmt)                             (* check_size *)
  && (if has_underscore fmt                                       (* check_underscore *)
      then nth (underscore_position fmt) id 0 =? us else true).

Definition parse_section (d : fmt_desc) (id : str) (s : section) : option N :=
  v <- parse_hex_list (sub id (seg_first d s) (seg_size d s)) ;;
  if range_ok (sec_range s) v then Some v else None.

Fixpoint parse_sections (d : fmt_desc) (id : str) (ss : list section) : option (list N) :=
  match ss with
  | [] => Some []
  | s :: r => v <- parse_section d id s ;; vs <- parse_sections d id r ;; Some (v :: vs)
  end.

(* parseXxxId: parser.validate(); parser.parse() *)
Definition parse_id (d : fmt_desc) (id : str) : option (list N) :=
  if validate d id then parse_sections d id (fd_sections d) else None.

(* formatHex: digits written right to left, value >>= 4 each time; returns digits and what is left over *)
Fixpoint hexdigits (len : nat) (v : N) : str * N :=
  match len with
  | O => ([], v)
  | S l => let '(ds, rest) := hexdigits l (v / 16) in (ds ++ [hexdigit (v mod 16)], rest)
  end.

Definition format_hex (out : str) (start len : nat) (v : N) : option str :=
  let '(ds, rest) := hexdigits len v in
  if rest =? 0 then Some (splice out start ds) else None.

(* id::formatSections: tail first, then the head section *)
Fixpoint format_sections (d : fmt_desc) (ss : list section) (vs : list N) (out : str) : option str :=
  match ss, vs with
  | [], [] => Some out
  | s :: r, v :: vr =>
      out' <- format_sections d r vr out ;;
      format_hex out' (seg_first d s) (seg_size d s) v
  | _, _ => None
  end.

Definition format_id (d : fmt_desc) (vs : list N) : option str :=
  format_sections d (fd_sections d) vs (fd_format d).

(* values a NamedType of the section's type can hold *)
Definition values_valid (d : fmt_desc) (vs : list N) : bool :=
  Nat.eqb (length vs) (length (fd_sections d)) &&
  forallb (fun p => range_ok (sec_range (fst p)) (snd p)) (combine (fd_sections d) vs).

(* ---- FrameFormatId: parseFrameFormatId / formatId(FrameFormatId) ---- *)
(* FrameFormatId's constructor (include/adm/serial/frame_format_id.hpp) stands in for the
   validators of FrameIndex and ChunkIndex: index in [1,0xFFFFFFFF], chunk in [1,0xFF] *)
Definition ffid_ctor (v : N * option N) : option (N * option N) :=
  let '(fi, ch) := v in
  if (fi =? 0) || (4294967295 <? fi) then None
  else match ch with
       | Some c => if (c =? 0) || (255 <? c) then None else Some v
       | None => Some v
       end.

Definition parse_ffid (short long : fmt_desc) (id : str) : option (N * option N) :=
  if Nat.eqb (length id) 14 then
    match parse_id long id with Some [fi; ch] => ffid_ctor (fi, Some ch) | _ => None end
  else if Nat.eqb (length id) 11 then
    match parse_id short id with Some [fi] => ffid_ctor (fi, None) | _ => None end
  else None.

Definition format_ffid (short long : fmt_desc) (v : N * option N) : option str :=
  match ffid_ctor v with
  | Some (fi, Some ch) => format_id long [fi; ch]
  | Some (fi, None) => format_id short [fi]
  | None => None
  end.

(* ---- well-formedness checker for descriptors (used by the generic theorems) ---- *)
Definition in_seg (d : fmt_desc) (s : section) (i : nat) : bool :=
  Nat.leb (seg_first d s) i && Nat.ltb i (seg_first d s + seg_size d s).

Fixpoint pairwise_disjoint (d : fmt_desc) (ss : list section) : bool :=
  match ss with
  | [] => true
  | s :: r =>
      forallb (fun t => Nat.leb (seg_first d s + seg_size d s) (seg_first d t)
                        || Nat.leb (seg_first d t + seg_size d t) (seg_first d s)) r
      && pairwise_disjoint d r
  end.

Definition wf_desc (d : fmt_desc) : bool :=
  let fmt := fd_format d in
  let L := length fmt in
  let plen := prefix_length fmt in
  let upos := underscore_position fmt in
  Nat.leb plen L
  && forallb (fun s => Nat.leb plen (seg_first d s)
                       && Nat.leb (seg_first d s + seg_size d s) L
                       && negb (has_underscore fmt && in_seg d s upos)
                       && match sec_range s with
                          | None => true
                          | Some (_, hi) => hi <? 16 ^ N.of_nat (seg_size d s)
                          end) (fd_sections d)
  && pairwise_disjoint d (fd_sections d)
  && forallb (fun i => Nat.ltb i plen
                       || (has_underscore fmt && Nat.eqb i upos)
                       || existsb (fun s => in_seg d s i) (fd_sections d)) (seq 0 L).
