(* Codec/TimeProofs.v - proofs about the timecode model: exact round trips for every
   nanosecond value below 100 h and every fraction with a positive 31-bit denominator,
   the BS.2076 shape of the text, and the grammar of everything the parser accepts. *)
From Adm Require Import Codec.TimeDefs.
From Coq Require Import ZifyBool ZifyNat ZifyN.
Ltac Zify.zify_post_hook ::= Z.div_mod_to_equations.
Local Open Scope N_scope.
Arguments N.add : simpl never.
Arguments N.mul : simpl never.
Arguments N.sub : simpl never.
Arguments N.div : simpl never.
Arguments N.modulo : simpl never.
Arguments N.pow : simpl never.
Arguments N.leb : simpl never.
Arguments N.ltb : simpl never.
Arguments N.eqb : simpl never.
Arguments N.of_nat : simpl never.

Definition all_digits (s : list N) : Prop := Forall (fun c => is_digit c = true) s.

(* total digit-string value (agrees with parse_dec_list on digit strings) *)
Definition dval (ds : list N) : N := fold_left (fun a c => a * 10 + (c - 48)) ds 0.

Lemma dval_acc ds : forall a, fold_left (fun a c => a * 10 + (c - 48)) ds a
                              = a * 10 ^ N.of_nat (length ds) + dval ds.
Proof.
  unfold dval. induction ds as [|d r IH]; intros a; simpl fold_left.
  - simpl. lia.
  - rewrite (IH (a * 10 + (d - 48))), (IH (0 * 10 + (d - 48))).
    replace (length (d :: r)) with (S (length r)) by reflexivity.
    rewrite Nat2N.inj_succ, N.pow_succ_r'. ring.
Qed.

Lemma dval_cons d r : dval (d :: r) = (d - 48) * 10 ^ N.of_nat (length r) + dval r.
Proof. unfold dval at 1. simpl fold_left. rewrite dval_acc. ring. Qed.

Lemma parse_dec_acc ds : all_digits ds -> forall a,
  fold_left dec_step ds (Some a) = Some (fold_left (fun a c => a * 10 + (c - 48)) ds a).
Proof.
  induction 1 as [|d r Hd Hr IH]; intros a; simpl; auto.
  rewrite Hd. apply IH.
Qed.

Lemma parse_dec_digits ds : all_digits ds -> parse_dec_list ds = Some (dval ds).
Proof. intros H. apply parse_dec_acc; auto. Qed.

Lemma dec_step_none cs : fold_left dec_step cs None = None.
Proof. induction cs; simpl; auto. Qed.

Lemma parse_dec_some ds v : parse_dec_list ds = Some v -> all_digits ds.
Proof.
  unfold parse_dec_list. generalize 0. revert v.
  induction ds as [|d r IH]; intros v a H; [constructor|].
  simpl in H. destruct (is_digit d) eqn:E.
  - constructor; [assumption|]. apply (IH _ _ H).
  - rewrite dec_step_none in H. discriminate.
Qed.

(* ---------- decdigits ---------- *)
Lemma decdigits_length len : forall v, length (fst (decdigits len v)) = len.
Proof.
  induction len as [|l IH]; intros v; simpl; auto.
  specialize (IH (v / 10)). destruct (decdigits l (v / 10)) as [ds rest]; cbn [fst] in *.
  rewrite app_length; simpl; lia.
Qed.

Lemma decdigits_digits len : forall v, all_digits (fst (decdigits len v)).
Proof.
  induction len as [|l IH]; intros v; simpl; [constructor|].
  specialize (IH (v / 10)). destruct (decdigits l (v / 10)) as [ds rest]; cbn [fst] in *.
  apply Forall_app; split; auto. constructor; [|constructor]. unfold is_digit.
  pose proof (N.mod_lt v 10 ltac:(lia)). lia.
Qed.

Lemma dval_snoc ds c : dval (ds ++ [c]) = dval ds * 10 + (c - 48).
Proof. unfold dval. rewrite fold_left_app. reflexivity. Qed.

Lemma dval_decdigits len : forall v, dval (fst (decdigits len v)) = v mod 10 ^ N.of_nat len.
Proof.
  induction len as [|l IH]; intros v.
  - simpl. rewrite N.mod_1_r. reflexivity.
  - cbn [decdigits]. specialize (IH (v / 10)). destruct (decdigits l (v / 10)) as [ds rest]; cbn [fst] in *.
    rewrite dval_snoc, IH. rewrite Nat2N.inj_succ, N.pow_succ_r'.
    assert (P : 10 ^ N.of_nat l <> 0) by (apply N.pow_nonzero; lia).
    set (p := 10 ^ N.of_nat l) in *. clearbody p.
    rewrite N.mod_mul_r by lia.
    replace (48 + v mod 10 - 48) with (v mod 10) by lia. ring.
Qed.

Lemma decdigits_zero j : fst (decdigits j 0) = repeat 48 j.
Proof.
  induction j as [|j IH]; simpl; auto.
  change (0 / 10) with 0. destruct (decdigits j 0) as [ds rest]; cbn [fst] in *. subst ds.
  change (48 + 0 mod 10) with 48. clear. induction j; simpl; auto. f_equal; auto.
Qed.

Lemma decdigits_lead k : forall j m, m < 10 ^ N.of_nat k ->
  fst (decdigits (j + k) m) = repeat 48 j ++ fst (decdigits k m).
Proof.
  induction k as [|k IH]; intros j m H.
  - simpl in H. assert (m = 0) by lia. subst. rewrite Nat.add_0_r, decdigits_zero. simpl. rewrite app_nil_r; auto.
  - replace (j + S k)%nat with (S (j + k)) by lia. cbn [decdigits].
    assert (Hq : m / 10 < 10 ^ N.of_nat k).
    { rewrite Nat2N.inj_succ, N.pow_succ_r' in H. apply N.div_lt_upper_bound; lia. }
    specialize (IH j (m / 10) Hq).
    destruct (decdigits (j + k) (m / 10)) as [ds rest]; destruct (decdigits k (m / 10)) as [ds' rest'].
    cbn [fst] in *. subst ds. rewrite app_assoc. reflexivity.
Qed.

(* ---------- number of digits ---------- *)
Lemma ndig_upper fuel : forall n, n < 2 ^ N.of_nat fuel -> n < 10 ^ N.of_nat (ndig fuel n).
Proof.
  induction fuel as [|f IH]; intros n H.
  - simpl in *. lia.
  - cbn [ndig]. destruct (n <? 10) eqn:E; [simpl; lia|].
    rewrite Nat2N.inj_succ, N.pow_succ_r' in *.
    assert (Hq : n / 10 < 2 ^ N.of_nat f) by (apply N.div_lt_upper_bound; lia).
    specialize (IH _ Hq).
    set (p := 10 ^ N.of_nat (ndig f (n / 10))) in *. clearbody p. lia.
Qed.

Lemma ndig_lower fuel : forall n, n < 2 ^ N.of_nat fuel -> 10 <= n ->
  10 ^ N.of_nat (ndig fuel n - 1) <= n.
Proof.
  induction fuel as [|f IH]; intros n H H10.
  - simpl in *. lia.
  - cbn [ndig]. destruct (n <? 10) eqn:E; [lia|].
    replace (S (ndig f (n / 10)) - 1)%nat with (ndig f (n / 10)) by lia.
    rewrite Nat2N.inj_succ, N.pow_succ_r' in H.
    assert (Hq : n / 10 < 2 ^ N.of_nat f) by (apply N.div_lt_upper_bound; lia).
    destruct (N.lt_ge_cases (n / 10) 10) as [Hs|Hb].
    + destruct f as [|f']; cbn [ndig]; [simpl; lia|].
      replace (n / 10 <? 10) with true by lia. simpl. lia.
    + specialize (IH _ Hq Hb).
      assert (Hpos : (1 <= ndig f (n / 10))%nat) by (destruct f; simpl; try lia; destruct (n / 10 <? 10); lia).
      replace (ndig f (n / 10)) with (S (ndig f (n / 10) - 1)) by lia.
      rewrite Nat2N.inj_succ, N.pow_succ_r'.
      set (p := 10 ^ N.of_nat (ndig f (n / 10) - 1)) in *. clearbody p. lia.
Qed.

Lemma size_bound n : n < 2 ^ N.of_nat (N.to_nat (N.size n)).
Proof. rewrite N2Nat.id. apply N.size_gt. Qed.

Lemma ndigits_upper n : n < 10 ^ N.of_nat (ndigits n).
Proof. apply ndig_upper, size_bound. Qed.

Lemma ndigits_pos n : (1 <= ndigits n)%nat.
Proof. unfold ndigits. destruct (N.to_nat (N.size n)); simpl; [lia|]. destruct (n <? 10); lia. Qed.

Lemma ndigits_le n w : (1 <= w)%nat -> n < 10 ^ N.of_nat w -> (ndigits n <= w)%nat.
Proof.
  intros Hw H. destruct (N.lt_ge_cases n 10) as [Hs|Hb].
  - unfold ndigits. destruct (N.to_nat (N.size n)); simpl; [lia|]. replace (n <? 10) with true by lia. lia.
  - pose proof (ndig_lower _ _ (size_bound n) Hb) as Hl. fold (ndigits n) in Hl.
    destruct (Nat.le_gt_cases (ndigits n) w) as [|Hgt]; auto. exfalso.
    assert (10 ^ N.of_nat w <= 10 ^ N.of_nat (ndigits n - 1)) by (apply N.pow_le_mono_r; lia).
    lia.
Qed.

(* ---------- dec / setw ---------- *)
Lemma dec_length n : length (dec n) = ndigits n.
Proof. apply decdigits_length. Qed.

Lemma dec_digits n : all_digits (dec n).
Proof. apply decdigits_digits. Qed.

Lemma dval_dec n : dval (dec n) = n.
Proof. unfold dec. rewrite dval_decdigits. apply N.mod_small, ndigits_upper. Qed.

Lemma dec_nonempty n : dec n <> [].
Proof. intros E. pose proof (dec_length n). pose proof (ndigits_pos n). rewrite E in *. simpl in *. lia. Qed.

Lemma setw_dec w m : (1 <= w)%nat -> m < 10 ^ N.of_nat w -> setw w (dec m) = fst (decdigits w m).
Proof.
  intros Hw H. unfold setw. rewrite dec_length.
  pose proof (ndigits_le m w Hw H) as Hle.
  replace w with ((w - ndigits m) + ndigits m)%nat at 2 by lia.
  rewrite decdigits_lead by apply ndigits_upper. reflexivity.
Qed.

Lemma two_digits x : x < 100 -> setw 2 (dec x) = [48 + x / 10; 48 + x mod 10].
Proof.
  intros H. rewrite setw_dec by (simpl; lia). cbn [decdigits fst app].
  f_equal. f_equal. lia.
Qed.

(* ---------- trim ---------- *)
Lemma trim_inv k : forall ns p, ns < 10 ^ N.of_nat p -> (5 <= p <= 9)%nat ->
  let '(m, q) := trim k ns p in
  ns = m * 10 ^ N.of_nat (p - q) /\ m < 10 ^ N.of_nat q /\ (5 <= q <= p)%nat
  /\ ((p - 5 <= k)%nat -> (5 < q)%nat -> m mod 10 <> 0).
Proof.
  induction k as [|k IH]; intros ns p H Hp; cbn [trim].
  - rewrite Nat.sub_diag. simpl. repeat split; try lia.
  - destruct ((ns mod 10 =? 0) && Nat.ltb 5 p)%bool eqn:E.
    + assert (Hq : ns / 10 < 10 ^ N.of_nat (p - 1)).
      { replace p with (S (p - 1)) in H at 1 by lia. rewrite Nat2N.inj_succ, N.pow_succ_r' in H.
        apply N.div_lt_upper_bound; lia. }
      specialize (IH (ns / 10) (p - 1)%nat Hq ltac:(lia)).
      destruct (trim k (ns / 10) (p - 1)) as [m q]. destruct IH as (I1 & I2 & I3 & I4).
      repeat split; try lia.
      * replace (p - q)%nat with (S (p - 1 - q)) by lia. rewrite Nat2N.inj_succ, N.pow_succ_r'.
        set (t := 10 ^ N.of_nat (p - 1 - q)) in *. clearbody t. lia.
    + rewrite Nat.sub_diag. simpl. repeat split; try lia.
Qed.

(* ---------- frac_places ---------- *)
Lemma frac_places_val ds : forall k, (length ds <= k)%nat ->
  frac_places k ds = dval ds * 10 ^ N.of_nat (k - length ds).
Proof.
  induction ds as [|d r IH]; intros k H.
  - destruct k; simpl; auto.
  - destruct k as [|k]; [simpl in H; lia|]. simpl in H. cbn [frac_places].
    rewrite IH by lia. rewrite dval_cons. simpl length.
    replace (S k - S (length r))%nat with (k - length r)%nat by lia.
    replace (N.of_nat k) with (N.of_nat (length r) + N.of_nat (k - length r)) at 1 by lia.
    rewrite N.pow_add_r. ring.
Qed.

(* ---------- span_digits ---------- *)
Lemma span_digits_app a b : all_digits a -> (b = [] \/ exists c r, b = c :: r /\ is_digit c = false) ->
  span_digits (a ++ b) = (a, b).
Proof.
  induction 1 as [|d r Hd Hr IH]; intros Hb; simpl.
  - destruct Hb as [->|(c & r & -> & Hc)]; simpl; auto. rewrite Hc. reflexivity.
  - rewrite Hd. rewrite IH; auto.
Qed.

Lemma span_digits_spec s : forall a b, span_digits s = (a, b) ->
  s = a ++ b /\ all_digits a /\ (b = [] \/ exists c r, b = c :: r /\ is_digit c = false).
Proof.
  induction s as [|c r IH]; intros a b H; simpl in H.
  - inversion H; subst. repeat split; auto. constructor.
  - destruct (is_digit c) eqn:E.
    + destruct (span_digits r) as [a' b'] eqn:Er. inversion H; subst.
      destruct (IH _ _ eq_refl) as (E1 & E2 & E3). subst r. repeat split; auto. constructor; auto.
    + inversion H; subst. repeat split; auto; [constructor|]. right. eauto.
Qed.

(* ---------- the grammar of accepted strings ---------- *)
Definition grammar (s : list N) : Prop :=
  exists h1 h2 m1 m2 s1 s2 sep ds tail,
    s = [h1; h2; colon; m1; m2; colon; s1; s2; sep] ++ ds ++ tail
    /\ all_digits [h1; h2; m1; m2; s1; s2] /\ regex_any sep = true
    /\ all_digits ds /\ ds <> []
    /\ (tail = [] \/ exists dd, tail = bigS :: dd /\ all_digits dd /\ dd <> []
                                /\ 1 <= dval dd <= int_max /\ dval ds <= int_max).

Lemma stoi_some ds v : stoi ds = Some v -> all_digits ds /\ v = dval ds /\ v <= int_max.
Proof.
  unfold stoi. destruct (parse_dec_list ds) as [w|] eqn:E; simpl; [|discriminate].
  pose proof (parse_dec_some _ _ E) as Hd. rewrite (parse_dec_digits _ Hd) in E. inversion E; subst.
  destruct (dval ds <=? int_max) eqn:L; [|discriminate]. intros H; inversion H; subst. repeat split; auto. lia.
Qed.

Lemma stoi_dec n : n <= int_max -> stoi (dec n) = Some n.
Proof.
  intros H. unfold stoi. rewrite (parse_dec_digits _ (dec_digits n)), dval_dec. simpl.
  replace (n <=? int_max) with true by lia. reflexivity.
Qed.

Theorem parse_time_grammar s t : parse_time s = Some t -> grammar s.
Proof.
  unfold parse_time.
  destruct s as [|h1 [|h2 [|c1 [|m1 [|m2 [|c2 [|s1 [|s2 [|sep rest]]]]]]]]]; try discriminate.
  destruct (is_digit h1 && is_digit h2 && (c1 =? colon) && is_digit m1 && is_digit m2 && (c2 =? colon)
            && is_digit s1 && is_digit s2 && regex_any sep)%bool eqn:C; [|discriminate].
  rewrite !andb_true_iff in C. destruct C as [[[[[[[[D1 D2] C1] D3] D4] C2] D5] D6] R].
  apply N.eqb_eq in C1, C2. subst c1 c2.
  destruct (span_digits rest) as [ds after] eqn:Es.
  destruct (span_digits_spec _ _ _ Es) as (-> & Hds & Hafter).
  destruct ds as [|d0 ds']; [discriminate|].
  destruct after as [|c ds2].
  - intros _. exists h1, h2, m1, m2, s1, s2, sep, (d0 :: ds'), []. repeat split; auto; try discriminate.
    repeat constructor; auto.
  - destruct (c =? bigS) eqn:Ec; [|discriminate]. apply N.eqb_eq in Ec. subst c.
    destruct (span_digits ds2) as [dd tail] eqn:Es2.
    destruct (span_digits_spec _ _ _ Es2) as (-> & Hdd & _).
    destruct dd as [|e0 dd']; [discriminate|].
    destruct tail; [|discriminate].
    destruct (stoi (d0 :: ds')) as [num|] eqn:En; [|discriminate]. simpl obind.
    destruct (stoi (e0 :: dd')) as [den|] eqn:Ed; [|discriminate]. simpl obind.
    destruct (den =? 0) eqn:Ez; [discriminate|]. intros _.
    apply stoi_some in En. apply stoi_some in Ed. destruct En as (_ & -> & Hn). destruct Ed as (_ & -> & Hd).
    exists h1, h2, m1, m2, s1, s2, sep, (d0 :: ds'), (bigS :: (e0 :: dd') ++ []).
    repeat split; auto; try discriminate.
    + repeat constructor; auto.
    + right. exists (e0 :: dd'). rewrite app_nil_r. repeat split; auto; try discriminate; lia.
Qed.

Theorem parse_time_den_positive s n d : parse_time s = Some (Frac n d) -> 1 <= d <= int_max.
Proof.
  unfold parse_time.
  destruct s as [|h1 [|h2 [|c1 [|m1 [|m2 [|c2 [|s1 [|s2 [|sep rest]]]]]]]]]; try discriminate.
  destruct (_ && _)%bool; [|discriminate].
  destruct (span_digits rest) as [ds after].
  destruct ds as [|d0 ds']; [discriminate|].
  destruct after as [|c ds2]; [discriminate|].
  destruct (c =? bigS); [|discriminate].
  destruct (span_digits ds2) as [dd tail].
  destruct dd as [|e0 dd']; [discriminate|].
  destruct tail; [|discriminate].
  destruct (stoi (d0 :: ds')) as [num|]; [|discriminate]. simpl obind.
  destruct (stoi (e0 :: dd')) as [den|] eqn:Ed; [|discriminate]. simpl obind.
  destruct (den =? 0) eqn:Ez; [discriminate|]. intros H; inversion H; subst.
  apply stoi_some in Ed. lia.
Qed.

(* ---------- round trips ---------- *)
Definition ns_limit : N := 360000 * 1000000000.   (* 100 hours *)

Lemma digit_ok x : x < 10 -> is_digit (48 + x) = true.
Proof. unfold is_digit. lia. Qed.

Theorem ns_roundtrip n : n < ns_limit -> parse_time (format_time (Ns n)) = Some (Ns n).
Proof.
  unfold ns_limit. intros H. cbn [format_time].
  pose proof (trim_inv 4 (n mod 1000000000) 9 ltac:(simpl; lia) ltac:(lia)) as T.
  destruct (trim 4 (n mod 1000000000) 9) as [m p]. destruct T as (T1 & T2 & T3 & _).
  set (h := n / 3600000000000) in *. set (mi := (n / 60000000000) mod 60) in *.
  set (se := (n / 1000000000) mod 60) in *.
  assert (Hh : h < 100) by (unfold h; lia).
  assert (Hm : mi < 100) by (unfold mi; lia).
  assert (Hs : se < 100) by (unfold se; lia).
  rewrite !two_digits by assumption.
  rewrite setw_dec by lia.
  set (F := fst (decdigits p m)).
  assert (HF : length F = p) by apply decdigits_length.
  assert (HD : all_digits F) by apply decdigits_digits.
  assert (HV : dval F = m) by (unfold F; rewrite dval_decdigits; apply N.mod_small; auto).
  cbn [app]. unfold parse_time.
  rewrite !digit_ok by lia. change (colon =? colon) with true. change (regex_any dot) with true. cbn [andb].
  replace F with (F ++ []) by apply app_nil_r.
  rewrite span_digits_app by auto.
  destruct F as [|f0 F'] eqn:EF; [simpl in HF; lia|]. rewrite <- EF in *.
  f_equal. f_equal.
  rewrite frac_places_val by lia. rewrite HV, HF.
  replace ((48 + h / 10 - 48) * 10 + (48 + h mod 10 - 48)) with h by lia.
  replace ((48 + mi / 10 - 48) * 10 + (48 + mi mod 10 - 48)) with mi by lia.
  replace ((48 + se / 10 - 48) * 10 + (48 + se mod 10 - 48)) with se by lia.
  rewrite <- T1. unfold h, mi, se. lia.
Qed.

Definition den_limit : N := 2147483648.  (* 2^31 *)

Theorem frac_roundtrip n d : 1 <= d -> d < den_limit -> n < 360000 * d ->
  parse_time (format_time (Frac n d)) = Some (Frac n d).
Proof.
  unfold den_limit. intros Hd1 Hd2 H. cbn [format_time].
  set (whole := n / d) in *. set (fnum := n - whole * d) in *.
  assert (Hw : whole < 360000) by (unfold whole; apply N.div_lt_upper_bound; lia).
  assert (Hf : fnum < d).
  { unfold fnum, whole. pose proof (N.mod_lt n d ltac:(lia)). pose proof (N.div_mod n d ltac:(lia)). lia. }
  assert (Hn : n = whole * d + fnum).
  { unfold fnum, whole. pose proof (N.div_mod n d ltac:(lia)). pose proof (N.mul_div_le n d ltac:(lia)). lia. }
  set (h := whole / 3600) in *. set (mi := (whole / 60) mod 60) in *. set (se := whole mod 60) in *.
  assert (Hh : h < 100) by (unfold h; lia).
  assert (Hm : mi < 100) by (unfold mi; lia).
  assert (Hs : se < 100) by (unfold se; lia).
  rewrite !two_digits by assumption.
  cbn [app]. unfold parse_time.
  rewrite !digit_ok by lia. change (colon =? colon) with true. change (regex_any dot) with true. cbn [andb].
  rewrite span_digits_app; [|apply dec_digits|right; exists bigS, (dec d); split; auto].
  pose proof (dec_nonempty fnum) as NE. destruct (dec fnum) as [|f0 F'] eqn:EF; [congruence|]. rewrite <- EF.
  change (bigS =? bigS) with true. cbv iota.
  replace (dec d) with (dec d ++ []) by apply app_nil_r.
  rewrite span_digits_app; [|apply dec_digits|auto].
  pose proof (dec_nonempty d) as NE2. destruct (dec d) as [|e0 D'] eqn:ED; [congruence|]. rewrite <- ED.
  rewrite !stoi_dec by (unfold int_max; lia). simpl obind.
  replace (d =? 0) with false by lia.
  f_equal. f_equal.
  replace ((48 + h / 10 - 48) * 10 + (48 + h mod 10 - 48)) with h by lia.
  replace ((48 + mi / 10 - 48) * 10 + (48 + mi mod 10 - 48)) with mi by lia.
  replace ((48 + se / 10 - 48) * 10 + (48 + se mod 10 - 48)) with se by lia.
  replace (3600 * h + 60 * mi + se) with whole by (unfold h, mi, se; lia).
  rewrite <- Hn. reflexivity.
Qed.

(* ---------- shape of the formatted text ---------- *)
Definition ns_shape (s : list N) : Prop :=
  exists a b c d e f F,
    s = [a; b; colon; c; d; colon; e; f; dot] ++ F
    /\ all_digits [a; b; c; d; e; f] /\ all_digits F /\ (5 <= length F <= 9)%nat
    /\ ((5 < length F)%nat -> last F 48 <> 48).

Theorem ns_shape_ok n : n < ns_limit -> ns_shape (format_time (Ns n)).
Proof.
  unfold ns_limit. intros H. cbn [format_time].
  pose proof (trim_inv 4 (n mod 1000000000) 9 ltac:(simpl; lia) ltac:(lia)) as T.
  destruct (trim 4 (n mod 1000000000) 9) as [m p]. destruct T as (T1 & T2 & T3 & T4).
  set (h := n / 3600000000000) in *. set (mi := (n / 60000000000) mod 60) in *.
  set (se := (n / 1000000000) mod 60) in *.
  assert (Hh : h < 100) by (unfold h; lia).
  assert (Hm : mi < 100) by (unfold mi; lia).
  assert (Hs : se < 100) by (unfold se; lia).
  rewrite !two_digits by assumption. rewrite setw_dec by lia.
  exists (48 + h / 10), (48 + h mod 10), (48 + mi / 10), (48 + mi mod 10), (48 + se / 10), (48 + se mod 10),
         (fst (decdigits p m)).
  split; [reflexivity|]. split; [repeat constructor; apply digit_ok; lia|].
  split; [apply decdigits_digits|]. rewrite decdigits_length. split; [lia|].
  intros Hp. specialize (T4 ltac:(lia) Hp).
  destruct p as [|p']; [lia|]. cbn [decdigits]. destruct (decdigits p' (m / 10)) as [ds rest]. cbn [fst].
  rewrite last_last. lia.
Qed.

Definition frac_shape (s : list N) : Prop :=
  exists a b c d e f A B,
    s = [a; b; colon; c; d; colon; e; f; dot] ++ A ++ [bigS] ++ B
    /\ all_digits [a; b; c; d; e; f] /\ all_digits A /\ A <> [] /\ all_digits B /\ B <> [].

Theorem frac_shape_ok n d : 1 <= d -> n < 360000 * d -> frac_shape (format_time (Frac n d)).
Proof.
  intros Hd1 H. cbn [format_time].
  set (whole := n / d) in *.
  assert (Hw : whole < 360000) by (unfold whole; apply N.div_lt_upper_bound; lia).
  set (h := whole / 3600) in *. set (mi := (whole / 60) mod 60) in *. set (se := whole mod 60) in *.
  assert (Hh : h < 100) by (unfold h; lia).
  assert (Hm : mi < 100) by (unfold mi; lia).
  assert (Hs : se < 100) by (unfold se; lia).
  rewrite !two_digits by assumption.
  exists (48 + h / 10), (48 + h mod 10), (48 + mi / 10), (48 + mi mod 10), (48 + se / 10), (48 + se mod 10),
         (dec (n - whole * d)), (dec d).
  split; [reflexivity|]. split; [repeat constructor; apply digit_ok; lia|].
  repeat split; auto using dec_digits, dec_nonempty.
Qed.

(* non-vacuity and concrete rejections *)
Example ns_example : format_time (Ns 3723000450000) = [48;49;58;48;50;58;48;51;46;48;48;48;52;53].
Proof. vm_compute. reflexivity. Qed.
Example zero_den_rejected : parse_time [48;48;58;48;48;58;48;49;46;53;83;48] = None.
Proof. vm_compute. reflexivity. Qed.

(* explicit rejection classes, corollaries of the grammar theorem *)
Lemma none_of_not_grammar s : ~ grammar s -> parse_time s = None.
Proof. intros H. destruct (parse_time s) eqn:E; auto. exfalso. eauto using parse_time_grammar. Qed.

Theorem reject_short s : (length s < 10)%nat -> parse_time s = None.
Proof.
  intros H. apply none_of_not_grammar. intros (h1&h2&m1&m2&s1&s2&sep&ds&tail&E&_&_&_&Hne&_).
  subst s. destruct ds; [congruence|]. simpl in H. lia.
Qed.

Theorem reject_nondigit_field s i : In i [0;1;3;4;6;7]%nat -> is_digit (nth i s 0) = false ->
  parse_time s = None.
Proof.
  intros Hi Hn. apply none_of_not_grammar. intros (h1&h2&m1&m2&s1&s2&sep&ds&tail&E&Hd&_).
  subst s. inversion Hd as [|? ? D1 Hd1]; subst. inversion Hd1 as [|? ? D2 Hd2]; subst.
  inversion Hd2 as [|? ? D3 Hd3]; subst. inversion Hd3 as [|? ? D4 Hd4]; subst.
  inversion Hd4 as [|? ? D5 Hd5]; subst. inversion Hd5 as [|? ? D6 Hd6]; subst.
  simpl in Hi. repeat (destruct Hi as [<-|Hi]; [simpl in Hn; congruence|]). contradiction.
Qed.

Theorem reject_bad_separator s : nth 2 s 0 <> colon \/ nth 5 s 0 <> colon -> parse_time s = None.
Proof.
  intros H. apply none_of_not_grammar. intros (h1&h2&m1&m2&s1&s2&sep&ds&tail&E&_).
  subst s. simpl in H. destruct H; congruence.
Qed.

Lemma last_app' {A} (l1 l2 : list A) d : l2 <> [] -> last (l1 ++ l2) d = last l2 d.
Proof.
  intros H. induction l1 as [|a l1 IH]; simpl; auto.
  destruct (l1 ++ l2) eqn:E; [destruct l1; simpl in E; congruence|]. exact IH.
Qed.

Lemma last_digit ds : all_digits ds -> ds <> [] -> is_digit (last ds 0) = true.
Proof. induction 1 as [|d r Hd Hr IH]; intros Hne; [congruence|]. destruct r; simpl; auto. apply IH. discriminate. Qed.

Theorem reject_trailing s x : parse_time s <> None -> is_digit x = false -> x <> bigS ->
  parse_time (s ++ [x]) = None.
Proof.
  intros _ Hx HS. apply none_of_not_grammar. intros (h1&h2&m1&m2&s1&s2&sep&ds&tail&E&_&_&Hds&Hne&Ht).
  (* the last character of an accepted string is a digit *)
  assert (L : is_digit (last (s ++ [x]) 0) = true).
  { rewrite E. destruct Ht as [->|(dd & -> & Hdd & Hdne & _)].
    - rewrite app_nil_r. rewrite last_app' by auto. apply last_digit; auto.
    - rewrite last_app' by (destruct ds; simpl; discriminate).
      rewrite last_app' by discriminate.
      change (bigS :: dd) with ([bigS] ++ dd). rewrite last_app' by auto. apply last_digit; auto. }
  rewrite last_last in L. congruence.
Qed.
