(* Codec/IdCodecProofs.v - proofs about the generic ID codec model, for every
   descriptor accepted by [wf_desc] and every value (no sweep, no bound). *)
From Adm Require Import Codec.IdCodecDefs.
From Coq Require Import ZifyBool ZifyNat ZifyN.
Ltac Zify.zify_post_hook ::= Z.div_mod_to_equations.
Local Open Scope N_scope.

(* ------------------------------------------------------------------ *)
(* list helpers                                                        *)
(* ------------------------------------------------------------------ *)
Lemma list_eqb_eq (a b : str) : str_eqb a b = true <-> a = b.
Proof.
  unfold str_eqb. revert b; induction a as [|x a IH]; intros [|y b]; simpl; try (split; congruence).
  rewrite andb_true_iff, IH, N.eqb_eq. split; [intros [-> ->]; reflexivity | intros H; inversion H; auto].
Qed.

Lemma sub_length {A} (s : list A) st len : (st + len <= length s)%nat -> length (sub s st len) = len.
Proof. intros H. unfold sub. rewrite firstn_length, skipn_length. lia. Qed.

Lemma nth_skipn' {A} (s : list A) st i d : nth i (skipn st s) d = nth (st + i) s d.
Proof.
  revert s; induction st as [|st IH]; intros s; simpl; auto.
  destruct s as [|x s]; simpl; auto. destruct i; auto.
Qed.

Lemma nth_firstn' {A} (s : list A) n i d : (i < n)%nat -> nth i (firstn n s) d = nth i s d.
Proof.
  revert s i; induction n as [|n IH]; intros s i H; [lia|].
  destruct s as [|x s]; simpl; auto. destruct i; auto. apply IH; lia.
Qed.

Lemma nth_sub {A} (s : list A) st len i d : (i < len)%nat ->
  nth i (sub s st len) d = nth (st + i) s d.
Proof. intros Hi. unfold sub. rewrite nth_firstn' by auto. apply nth_skipn'. Qed.

Lemma splice_length {A} (s : list A) st ds : (st + length ds <= length s)%nat ->
  length (splice s st ds) = length s.
Proof. intros H. unfold splice. rewrite !app_length, firstn_length, skipn_length. lia. Qed.

Lemma nth_splice {A} (s : list A) st ds i d : (st + length ds <= length s)%nat ->
  nth i (splice s st ds) d =
  if (Nat.leb st i && Nat.ltb i (st + length ds))%bool then nth (i - st) ds d else nth i s d.
Proof.
  intros H. unfold splice.
  assert (Lf : length (firstn st s) = st) by (rewrite firstn_length; lia).
  destruct (Nat.leb st i) eqn:E1; simpl.
  - rewrite app_nth2 by lia. rewrite Lf.
    destruct (Nat.ltb i (st + length ds)) eqn:E2.
    + rewrite app_nth1 by lia. reflexivity.
    + rewrite app_nth2 by lia. rewrite nth_skipn'. f_equal. lia.
  - rewrite app_nth1 by lia. apply nth_firstn'. lia.
Qed.

Lemma list_ext {A} (a b : list A) d : length a = length b ->
  (forall i, (i < length a)%nat -> nth i a d = nth i b d) -> a = b.
Proof. intros Hl H. apply nth_ext with (d := d) (d' := d); auto. Qed.

(* ------------------------------------------------------------------ *)
(* hex digits                                                          *)
(* ------------------------------------------------------------------ *)
Lemma hexval_hexdigit d : d < 16 -> hexval (hexdigit d) = Some d.
Proof.
  intros H. unfold hexval, hexdigit.
  destruct (d <? 10) eqn:E.
  - replace ((48 <=? 48 + d) && (48 + d <=? 57))%bool with true by lia. f_equal; lia.
  - replace ((48 <=? 87 + d) && (87 + d <=? 57))%bool with false by lia.
    replace ((97 <=? 87 + d) && (87 + d <=? 102))%bool with true by lia. f_equal; lia.
Qed.

Lemma hexval_lt16 c v : hexval c = Some v -> v < 16.
Proof.
  unfold hexval.
  destruct ((48 <=? c) && (c <=? 57))%bool eqn:E1; [intros H; inversion H; lia|].
  destruct ((97 <=? c) && (c <=? 102))%bool eqn:E2; [intros H; inversion H; lia|].
  destruct ((65 <=? c) && (c <=? 70))%bool eqn:E3; [intros H; inversion H; lia|discriminate].
Qed.

(* two characters denote the same ID character: identical, or the same hex digit in either case *)
Definition ci_char (a b : byte) : Prop := a = b \/ (hexval a = hexval b /\ hexval a <> None).
Definition ci_eq (a b : str) : Prop := Forall2 ci_char a b.

Lemma ci_char_hexdigit c v : hexval c = Some v -> ci_char (hexdigit v) c.
Proof.
  intros H. right. rewrite (hexval_hexdigit v (hexval_lt16 _ _ H)), H. split; congruence.
Qed.

Lemma parse_hex_list_none cs : fold_left hex_step cs None = None.
Proof. induction cs; simpl; auto. Qed.

Lemma parse_hex_snoc cs c : parse_hex_list (cs ++ [c]) = hex_step (parse_hex_list cs) c.
Proof. unfold parse_hex_list. rewrite fold_left_app. reflexivity. Qed.

Lemma hexdigits_length len : forall v, length (fst (hexdigits len v)) = len.
Proof.
  induction len as [|l IH]; intros v; simpl; auto.
  specialize (IH (v / 16)). destruct (hexdigits l (v / 16)) as [ds rest]; simpl in *.
  rewrite app_length; simpl; lia.
Qed.

Lemma hexdigits_rest len : forall v, snd (hexdigits len v) = v / 16 ^ N.of_nat len.
Proof.
  induction len as [|l IH]; intros v.
  - simpl. rewrite N.div_1_r. reflexivity.
  - cbn [hexdigits]. specialize (IH (v / 16)). destruct (hexdigits l (v / 16)) as [ds rest]; cbn [fst snd] in *.
    rewrite IH. rewrite Nat2N.inj_succ, N.pow_succ_r'. rewrite N.div_div by (try apply N.pow_nonzero; lia).
    reflexivity.
Qed.

(* parse (digits of v) = v mod 16^len : the codec law, for every v and len *)
Lemma parse_hexdigits len : forall v,
  parse_hex_list (fst (hexdigits len v)) = Some (v mod 16 ^ N.of_nat len).
Proof.
  induction len as [|l IH]; intros v.
  - simpl. rewrite N.mod_1_r. reflexivity.
  - cbn [hexdigits]. specialize (IH (v / 16)). destruct (hexdigits l (v / 16)) as [ds rest]; simpl fst in *.
    rewrite parse_hex_snoc, IH. unfold hex_step.
    rewrite hexval_hexdigit by (apply N.mod_lt; lia).
    f_equal. rewrite Nat2N.inj_succ, N.pow_succ_r'.
    assert (P : 16 ^ N.of_nat l <> 0) by (apply N.pow_nonzero; lia).
    set (p := 16 ^ N.of_nat l) in *. clearbody p.
    rewrite N.mod_mul_r by lia. ring.
Qed.

Lemma hexdigits_ok len v : v < 16 ^ N.of_nat len ->
  snd (hexdigits len v) = 0 /\ parse_hex_list (fst (hexdigits len v)) = Some v.
Proof.
  intros H. rewrite hexdigits_rest, parse_hexdigits. split.
  - apply N.div_small; auto.
  - rewrite N.mod_small; auto.
Qed.

(* converse: a parsed digit string re-formats to itself up to hex case, and fits the width *)
Lemma parse_hex_inv cs : forall v, parse_hex_list cs = Some v ->
  v < 16 ^ N.of_nat (length cs) /\ ci_eq (fst (hexdigits (length cs) v)) cs
  /\ snd (hexdigits (length cs) v) = 0.
Proof.
  induction cs as [|c cs IH] using rev_ind; intros v H.
  - unfold parse_hex_list in H; simpl in H. inversion H; subst. simpl. repeat split; try lia. constructor.
  - rewrite parse_hex_snoc in H. unfold hex_step in H.
    destruct (parse_hex_list cs) as [a|] eqn:Ea; [|discriminate].
    destruct (hexval c) as [dv|] eqn:Ec; [|discriminate].
    inversion H; subst v; clear H.
    destruct (IH a eq_refl) as (Hlt & Hci & Hrest).
    pose proof (hexval_lt16 _ _ Ec) as Hd.
    rewrite app_length; simpl length. replace (length cs + 1)%nat with (S (length cs)) by lia.
    assert (E1 : (a * 16 + dv) / 16 = a) by lia.
    assert (E2 : (a * 16 + dv) mod 16 = dv) by lia.
    cbn [hexdigits]. rewrite E1, E2.
    destruct (hexdigits (length cs) a) as [ds rest] eqn:Eh; simpl fst in *; simpl snd in *.
    split; [|split].
    + rewrite Nat2N.inj_succ, N.pow_succ_r'. lia.
    + apply Forall2_app; [exact Hci|]. constructor; [|constructor]. apply ci_char_hexdigit; auto.
    + exact Hrest.
Qed.

Lemma parse_hex_bad cs i : (i < length cs)%nat -> hexval (nth i cs 0) = None -> parse_hex_list cs = None.
Proof.
  unfold parse_hex_list. generalize (Some 0). revert i.
  induction cs as [|c cs IH]; intros i acc Hi Hn; simpl in *; [lia|].
  destruct i as [|i].
  - unfold hex_step at 2. rewrite Hn. destruct acc; apply parse_hex_list_none.
  - apply (IH i); auto; lia.
Qed.

(* ------------------------------------------------------------------ *)
(* unfolding the wf checker                                            *)
(* ------------------------------------------------------------------ *)
Record wf_sec (d : fmt_desc) (s : section) : Prop := {
  ws_after_prefix : (prefix_length (fd_format d) <= seg_first d s)%nat;
  ws_in_bounds : (seg_first d s + seg_size d s <= length (fd_format d))%nat;
  ws_not_us : has_underscore (fd_format d) = true -> in_seg d s (underscore_position (fd_format d)) = false;
  ws_range : forall lo hi, sec_range s = Some (lo, hi) -> hi < 16 ^ N.of_nat (seg_size d s)
}.

Lemma wf_desc_secs d : wf_desc d = true -> Forall (wf_sec d) (fd_sections d).
Proof.
  unfold wf_desc. rewrite !andb_true_iff. intros [[[_ H] _] _].
  rewrite forallb_forall in H. apply Forall_forall. intros s Hs. specialize (H s Hs).
  rewrite !andb_true_iff in H. destruct H as [[[H1 H2] H3] H4].
  constructor; try lia.
  - intros Hu. rewrite Hu in H3. simpl in H3. destruct (in_seg d s _); simpl in *; congruence.
  - intros lo hi E. rewrite E in H4. lia.
Qed.

Lemma wf_desc_plen d : wf_desc d = true -> (prefix_length (fd_format d) <= length (fd_format d))%nat.
Proof. unfold wf_desc. rewrite !andb_true_iff. intros [[[H _] _] _]. lia. Qed.

Lemma wf_desc_disjoint d : wf_desc d = true -> pairwise_disjoint d (fd_sections d) = true.
Proof. unfold wf_desc. rewrite !andb_true_iff. tauto. Qed.

Lemma wf_desc_cover d i : wf_desc d = true -> (i < length (fd_format d))%nat ->
  (i < prefix_length (fd_format d))%nat
  \/ (has_underscore (fd_format d) = true /\ i = underscore_position (fd_format d))
  \/ exists s, In s (fd_sections d) /\ in_seg d s i = true.
Proof.
  unfold wf_desc. rewrite !andb_true_iff. intros [_ H] Hi.
  rewrite forallb_forall in H. specialize (H i). rewrite in_seq in H. specialize (H ltac:(lia)).
  rewrite !orb_true_iff in H. destruct H as [[H|H]|H].
  - left; lia.
  - right; left. rewrite andb_true_iff in H. destruct H. split; auto. lia.
  - right; right. rewrite existsb_exists in H. exact H.
Qed.

(* ------------------------------------------------------------------ *)
(* format: characterisation of the output                              *)
(* ------------------------------------------------------------------ *)
Lemma format_hex_some out st len v r : format_hex out st len v = Some r ->
  snd (hexdigits len v) = 0 /\ r = splice out st (fst (hexdigits len v)).
Proof.
  unfold format_hex. destruct (hexdigits len v) as [ds rest]; simpl.
  destruct (rest =? 0) eqn:E; [|discriminate]. intros H; inversion H. split; auto. lia.
Qed.

Lemma format_hex_fits out st len v : v < 16 ^ N.of_nat len ->
  format_hex out st len v = Some (splice out st (fst (hexdigits len v))).
Proof.
  intros H. destruct (hexdigits_ok len v H) as [Hr _]. unfold format_hex.
  destruct (hexdigits len v) as [ds rest]; simpl in *. subst rest. reflexivity.
Qed.

Lemma format_hex_wide out st len v : 16 ^ N.of_nat len <= v -> format_hex out st len v = None.
Proof.
  intros H. unfold format_hex. pose proof (hexdigits_rest len v) as Hr.
  destruct (hexdigits len v) as [ds rest]; simpl in *.
  assert (P : 16 ^ N.of_nat len <> 0) by (apply N.pow_nonzero; lia).
  assert (rest <> 0).
  { subst rest. intros E. apply N.div_small_iff in E; auto. lia. }
  destruct (rest =? 0) eqn:E; auto. lia.
Qed.

(* the value a field may hold: fits its width (implied by the validator when there is one) *)
Definition fits (d : fmt_desc) (s : section) (v : N) : Prop := v < 16 ^ N.of_nat (seg_size d s).

Lemma format_sections_length d ss : forall vs out r,
  Forall (wf_sec d) ss -> length out = length (fd_format d) ->
  format_sections d ss vs out = Some r -> length r = length out.
Proof.
  induction ss as [|s ss IH]; intros [|v vs] out r Hwf Hl H; simpl in H; try discriminate.
  - inversion H; auto.
  - inversion Hwf as [|? ? Hs Hss]; subst.
    destruct (format_sections d ss vs out) as [out'|] eqn:E; simpl in H; [|discriminate].
    pose proof (IH _ _ _ Hss Hl E) as Hl'.
    apply format_hex_some in H. destruct H as [_ ->].
    rewrite splice_length; auto. rewrite hexdigits_length. destruct Hs. lia.
Qed.

(* position [i] of the formatted string *)
Lemma format_sections_nth d ss : forall vs out r i,
  Forall (wf_sec d) ss -> length out = length (fd_format d) ->
  format_sections d ss vs out = Some r ->
  nth i r 0 =
  match find (fun p => in_seg d (fst p) i) (combine ss vs) with
  | Some (s, v) => nth (i - seg_first d s) (fst (hexdigits (seg_size d s) v)) 0
  | None => nth i out 0
  end.
Proof.
  induction ss as [|s ss IH]; intros [|v vs] out r i Hwf Hl H; simpl in H; try discriminate.
  - inversion H; auto.
  - inversion Hwf as [|? ? Hs Hss]; subst.
    destruct (format_sections d ss vs out) as [out'|] eqn:E; simpl in H; [|discriminate].
    pose proof (format_sections_length _ _ _ _ _ Hss Hl E) as Hl'.
    apply format_hex_some in H. destruct H as [_ ->].
    rewrite nth_splice by (rewrite hexdigits_length; destruct Hs; lia).
    rewrite hexdigits_length. cbn [combine find fst].
    unfold in_seg at 1.
    destruct (Nat.leb (seg_first d s) i && Nat.ltb i (seg_first d s + seg_size d s))%bool; auto.
Qed.

Lemma format_sections_total d ss : forall vs out,
  Forall (wf_sec d) ss -> length out = length (fd_format d) ->
  Forall2 (fits d) ss vs -> exists r, format_sections d ss vs out = Some r.
Proof.
  induction ss as [|s ss IH]; intros vs out Hwf Hl Hf; inversion Hf; subst; simpl.
  - eauto.
  - inversion Hwf; subst. destruct (IH _ out H4 Hl H3) as [out' E]. rewrite E. simpl.
    rewrite format_hex_fits by assumption. eauto.
Qed.

Lemma format_sections_wide d ss : forall vs out,
  length vs = length ss ->
  Exists (fun p => 16 ^ N.of_nat (seg_size d (fst p)) <= snd p) (combine ss vs) ->
  format_sections d ss vs out = None.
Proof.
  induction ss as [|s ss IH]; intros [|v vs] out Hl Hex; simpl in *; try discriminate; try lia.
  - inversion Hex.
  - inversion Hex as [? ? Hhd|? ? Htl]; subst; simpl in *.
    + destruct (format_sections d ss vs out); simpl; auto. apply format_hex_wide; auto.
    + rewrite IH; auto.
Qed.

(* ------------------------------------------------------------------ *)
(* disjointness: the field found first at a position of section s is s *)
(* ------------------------------------------------------------------ *)
(* simpler statement, by position in the section list *)
Lemma find_seg_nth d ss : forall vs k s v i,
  pairwise_disjoint d ss = true ->
  nth_error ss k = Some s -> nth_error vs k = Some v -> in_seg d s i = true ->
  (0 < seg_size d s)%nat ->
  exists s', find (fun p : section * N => in_seg d (fst p) i) (combine ss vs) = Some (s', v)
             /\ seg_first d s' = seg_first d s /\ seg_size d s' = seg_size d s.
Proof.
  induction ss as [|t ss IH]; intros [|w vs] k s v i Hd Hs Hv Hi Hpos; destruct k; simpl in *; try discriminate.
  - inversion Hs; inversion Hv; subst. rewrite Hi. eauto.
  - rewrite andb_true_iff in Hd. destruct Hd as [Hd1 Hd2].
    destruct (in_seg d t i) eqn:Et.
    + exfalso. rewrite forallb_forall in Hd1.
      specialize (Hd1 s (nth_error_In _ _ Hs)). unfold in_seg in *. lia.
    + eapply IH; eauto.
Qed.

(* ------------------------------------------------------------------ *)
(* auxiliary facts                                                     *)
(* ------------------------------------------------------------------ *)
Lemma find_first_le l c : (find_first l c <= length l)%nat.
Proof. induction l as [|x l IH]; simpl; [lia|]. destruct (x =? c); lia. Qed.

Lemma find_first_nth l c : (find_first l c < length l)%nat -> nth (find_first l c) l 0 = c.
Proof.
  induction l as [|x l IH]; simpl; [lia|]. destruct (x =? c) eqn:E; intros H; [lia|]. apply IH; lia.
Qed.

Lemma underscore_nth fmt : has_underscore fmt = true -> (prefix_length fmt <= length fmt)%nat ->
  (underscore_position fmt < length fmt)%nat /\ nth (underscore_position fmt) fmt 0 = us.
Proof.
  unfold has_underscore, underscore_position. intros H Hp.
  set (p := prefix_length fmt) in *.
  pose proof (find_first_le (skipn p fmt) us) as Hle. rewrite skipn_length in Hle.
  assert (Hlt : (find_first (skipn p fmt) us < length (skipn p fmt))%nat) by (rewrite skipn_length; lia).
  split; [lia|].
  rewrite Nat.add_comm, <- nth_skipn'. apply find_first_nth; auto.
Qed.

Lemma Forall2_nth_intro {A B} (P : A -> B -> Prop) a b da db : length a = length b ->
  (forall i, (i < length a)%nat -> P (nth i a da) (nth i b db)) -> Forall2 P a b.
Proof.
  revert b; induction a as [|x a IH]; intros [|y b] Hl H; simpl in *; try discriminate; constructor.
  - apply (H O); lia.
  - apply IH; [lia|]. intros i Hi. apply (H (S i)); lia.
Qed.

Lemma Forall2_nth_elim {A B} (P : A -> B -> Prop) a b da db i : Forall2 P a b -> (i < length a)%nat ->
  P (nth i a da) (nth i b db).
Proof.
  intros H; revert i; induction H; intros i Hi; simpl in *; [lia|]. destruct i; auto. apply IHForall2; lia.
Qed.

Lemma Forall2_impl' {A B} (P Q : A -> B -> Prop) a b : (forall x y, P x y -> Q x y) ->
  Forall2 P a b -> Forall2 Q a b.
Proof. intros H F; induction F; constructor; auto. Qed.

Lemma Forall2_length' {A B} (P : A -> B -> Prop) a b : Forall2 P a b -> length a = length b.
Proof. intros F; induction F; simpl; auto. Qed.

Lemma in_combine_exists {A B} (l : list A) (l' : list B) x : length l = length l' -> In x l ->
  exists y, In (x, y) (combine l l').
Proof.
  revert l'; induction l as [|a l IH]; intros [|b l'] Hl Hin; simpl in *; try tauto; try discriminate.
  destruct Hin as [->|Hin]; [eauto|]. destruct (IH l' ltac:(lia) Hin) as [y Hy]. eauto.
Qed.

Lemma parse_sections_length d id ss : forall vs, parse_sections d id ss = Some vs -> length vs = length ss.
Proof.
  induction ss as [|s ss IH]; intros vs H; simpl in H.
  - inversion H; auto.
  - destruct (parse_section d id s); simpl in H; [|discriminate].
    destruct (parse_sections d id ss) eqn:E; simpl in H; [|discriminate].
    inversion H; subst. simpl. f_equal. auto.
Qed.

Lemma parse_sections_in d id ss : forall vs s v, parse_sections d id ss = Some vs ->
  In (s, v) (combine ss vs) -> parse_section d id s = Some v.
Proof.
  induction ss as [|t ss IH]; intros vs s v H Hin; simpl in H.
  - inversion H; subst. inversion Hin.
  - destruct (parse_section d id t) eqn:Et; simpl in H; [|discriminate].
    destruct (parse_sections d id ss) eqn:E; simpl in H; [|discriminate].
    inversion H; subst. simpl in Hin. destruct Hin as [Hin|Hin]; [inversion Hin; subst; auto|eauto].
Qed.

Lemma parse_sections_intro d id ss : forall vs, length vs = length ss ->
  (forall k s v, nth_error ss k = Some s -> nth_error vs k = Some v -> parse_section d id s = Some v) ->
  parse_sections d id ss = Some vs.
Proof.
  induction ss as [|s ss IH]; intros [|v vs] Hl H; simpl in *; try discriminate; auto.
  rewrite (H O s v eq_refl eq_refl). simpl.
  rewrite (IH vs ltac:(lia)); auto. intros k s' v' H1 H2. apply (H (S k)); auto.
Qed.

Lemma parse_sections_none d id ss s : In s ss -> parse_section d id s = None -> parse_sections d id ss = None.
Proof.
  induction ss as [|t ss IH]; intros Hin Hn; simpl in *; [tauto|].
  destruct Hin as [->|Hin]; [rewrite Hn; reflexivity|].
  destruct (parse_section d id t); simpl; auto. rewrite IH; auto.
Qed.

Lemma parse_section_inv d id s v : parse_section d id s = Some v ->
  parse_hex_list (sub id (seg_first d s) (seg_size d s)) = Some v /\ range_ok (sec_range s) v = true.
Proof.
  unfold parse_section. destruct (parse_hex_list _) as [w|]; simpl; [|discriminate].
  destruct (range_ok (sec_range s) w) eqn:E; [|discriminate]. intros H; inversion H; subst; auto.
Qed.

Lemma validate_inv d id : validate d id = true ->
  length id = length (fd_format d)
  /\ firstn (prefix_length (fd_format d)) (fd_format d) = firstn (prefix_length (fd_format d)) id
  /\ (has_underscore (fd_format d) = true -> nth (underscore_position (fd_format d)) id 0 = us).
Proof.
  unfold validate, id_starts_with. rewrite !andb_true_iff. intros [[[_ H1] H2] H3].
  apply list_eqb_eq in H1. split; [lia|]. split; auto.
  intros Hu. rewrite Hu in H3. lia.
Qed.

(* the value list a parsed/valid ID carries *)
Definition in_field_ranges (d : fmt_desc) (vs : list N) : Prop :=
  Forall2 (fun s v => fits d s v /\ range_ok (sec_range s) v = true) (fd_sections d) vs.

(* ------------------------------------------------------------------ *)
(* the four generic theorems                                           *)
(* ------------------------------------------------------------------ *)
Theorem format_id_length d vs r : wf_desc d = true -> format_id d vs = Some r ->
  length r = length (fd_format d).
Proof.
  intros Hwf H. unfold format_id in H.
  eapply format_sections_length in H; eauto using wf_desc_secs.
Qed.

Theorem parse_format_generic d vs : wf_desc d = true -> in_field_ranges d vs ->
  exists s, format_id d vs = Some s /\ parse_id d s = Some vs.
Proof.
  intros Hwf Hr.
  pose proof (wf_desc_secs d Hwf) as Hsecs.
  pose proof (wf_desc_plen d Hwf) as Hplen.
  assert (Hfits : Forall2 (fits d) (fd_sections d) vs).
  { unfold in_field_ranges in Hr. eapply Forall2_impl'; [|exact Hr]. simpl; tauto. }
  destruct (format_sections_total d (fd_sections d) vs (fd_format d) Hsecs eq_refl Hfits) as [r Hf].
  exists r. split; [exact Hf|].
  pose proof (format_sections_length _ _ _ _ _ Hsecs eq_refl Hf) as Hlen.
  pose proof (fun i => format_sections_nth d _ vs _ r i Hsecs eq_refl Hf) as Hnth.
  assert (Hlenvs : length vs = length (fd_sections d)) by (symmetry; eapply Forall2_length'; eauto).
  (* positions outside every field keep the format's character *)
  assert (Hout : forall i, (forall s, In s (fd_sections d) -> in_seg d s i = false) -> nth i r 0 = nth i (fd_format d) 0).
  { intros i Hno. rewrite Hnth.
    destruct (find _ _) as [[s v]|] eqn:E; auto.
    apply find_some in E. destruct E as [Hin Hi]. simpl in Hi.
    rewrite (Hno s (in_combine_l _ _ _ _ Hin)) in Hi. discriminate. }
  unfold parse_id.
  assert (Hval : validate d r = true).
  { unfold validate, id_starts_with. rewrite !andb_true_iff. repeat split.
    - rewrite Hlen. apply Nat.leb_le; auto.
    - apply list_eqb_eq. apply list_ext with (d := 0); [rewrite !firstn_length; lia|].
      intros i Hi. rewrite firstn_length in Hi. rewrite !nth_firstn' by lia.
      symmetry. apply Hout. intros s Hs. rewrite Forall_forall in Hsecs. destruct (Hsecs s Hs).
      unfold in_seg. lia.
    - apply Nat.eqb_eq; auto.
    - destruct (has_underscore (fd_format d)) eqn:Hu; auto.
      destruct (underscore_nth _ Hu Hplen) as [Hlt Hus].
      rewrite Hout; [rewrite Hus; apply N.eqb_refl|].
      intros s Hs. rewrite Forall_forall in Hsecs. destruct (Hsecs s Hs); auto. }
  rewrite Hval.
  apply parse_sections_intro; auto.
  intros k s v Hs Hv.
  assert (Hws : wf_sec d s) by (rewrite Forall_forall in Hsecs; apply Hsecs; eapply nth_error_In; eauto).
  assert (Hsv : fits d s v /\ range_ok (sec_range s) v = true).
  { clear - Hr Hs Hv. unfold in_field_ranges in Hr. revert k Hs Hv.
    generalize dependent (fd_sections d). intros ss Hr.
    induction Hr; intros [|k] Hs Hv; simpl in *; try discriminate.
    - inversion Hs; inversion Hv; subst; auto.
    - eauto. }
  destruct Hsv as [Hfit Hrange].
  unfold parse_section.
  assert (Hsub : sub r (seg_first d s) (seg_size d s) = fst (hexdigits (seg_size d s) v)).
  { apply list_ext with (d := 0).
    - rewrite hexdigits_length. apply sub_length. destruct Hws; lia.
    - intros j Hj. rewrite sub_length in Hj by (destruct Hws; lia).
      rewrite nth_sub by auto. rewrite Hnth.
      destruct (find_seg_nth d _ vs k s v (seg_first d s + j) (wf_desc_disjoint d Hwf) Hs Hv) as (s' & E & E1 & E2).
      { unfold in_seg. lia. } { lia. }
      rewrite E, E1, E2. f_equal. lia. }
  rewrite Hsub. destruct (hexdigits_ok _ _ Hfit) as [_ ->]. simpl. rewrite Hrange. reflexivity.
Qed.

Theorem format_parse_generic d s vs : wf_desc d = true -> parse_id d s = Some vs ->
  in_field_ranges d vs /\ exists r, format_id d vs = Some r /\ ci_eq r s.
Proof.
  intros Hwf Hp. unfold parse_id in Hp.
  destruct (validate d s) eqn:Hval; [|discriminate].
  destruct (validate_inv _ _ Hval) as (Hlen & Hpre & Hus).
  pose proof (wf_desc_secs d Hwf) as Hsecs.
  pose proof (wf_desc_plen d Hwf) as Hplen.
  pose proof (parse_sections_length _ _ _ _ Hp) as Hlenvs.
  assert (Hall : forall t v, In (t, v) (combine (fd_sections d) vs) ->
            v < 16 ^ N.of_nat (seg_size d t) /\ range_ok (sec_range t) v = true
            /\ ci_eq (fst (hexdigits (seg_size d t) v)) (sub s (seg_first d t) (seg_size d t))).
  { intros t v Hin. pose proof (parse_sections_in _ _ _ _ _ _ Hp Hin) as Ht.
    apply parse_section_inv in Ht. destruct Ht as [Hh Hr].
    assert (Hws : wf_sec d t) by (rewrite Forall_forall in Hsecs; apply Hsecs; eapply in_combine_l; eauto).
    apply parse_hex_inv in Hh. rewrite sub_length in Hh by (destruct Hws; lia). tauto. }
  assert (Hir : in_field_ranges d vs).
  { unfold in_field_ranges. clear - Hall Hlenvs. revert vs Hall Hlenvs.
    induction (fd_sections d) as [|t ss IH]; intros [|v vs] Hall Hl; simpl in *; try discriminate; constructor.
    - unfold fits. destruct (Hall t v (or_introl eq_refl)); tauto.
    - apply IH; [|lia]. intros; apply Hall; auto. }
  split; [exact Hir|].
  assert (Hfits : Forall2 (fits d) (fd_sections d) vs).
  { unfold in_field_ranges in Hir. eapply Forall2_impl'; [|exact Hir]. simpl; tauto. }
  destruct (format_sections_total d (fd_sections d) vs (fd_format d) Hsecs eq_refl Hfits) as [r Hf].
  exists r. split; [exact Hf|].
  pose proof (format_sections_length _ _ _ _ _ Hsecs eq_refl Hf) as Hlenr.
  apply Forall2_nth_intro with (da := 0) (db := 0); [lia|].
  intros i Hi. rewrite (format_sections_nth d _ vs _ r i Hsecs eq_refl Hf).
  destruct (find _ _) as [[t v]|] eqn:E.
  - apply find_some in E. destruct E as [Hin Hseg]. simpl in Hseg.
    destruct (Hall t v Hin) as (_ & _ & Hci).
    assert (Hws : wf_sec d t) by (rewrite Forall_forall in Hsecs; apply Hsecs; eapply in_combine_l; eauto).
    unfold in_seg in Hseg.
    replace (nth i s 0) with (nth (i - seg_first d t) (sub s (seg_first d t) (seg_size d t)) 0).
    + apply Forall2_nth_elim; auto. rewrite hexdigits_length. lia.
    + rewrite nth_sub by lia. f_equal. lia.
  - left.
    destruct (wf_desc_cover d i Hwf ltac:(lia)) as [Hc|[[Hu Hc]|[t [Ht Hc]]]].
    + rewrite <- (nth_firstn' _ (prefix_length (fd_format d))) by lia. rewrite Hpre.
      rewrite nth_firstn' by lia. reflexivity.
    + subst i. rewrite (Hus Hu). apply (underscore_nth _ Hu Hplen).
    + exfalso. destruct (in_combine_exists _ vs t (eq_sym Hlenvs) Ht) as [v Hv].
      pose proof (find_none _ _ E _ Hv) as Hn. simpl in Hn. congruence.
Qed.

(* rejection of malformed strings *)
Theorem reject_wrong_length d s : length s <> length (fd_format d) -> parse_id d s = None.
Proof.
  intros H. unfold parse_id, validate.
  destruct (Nat.eqb (length s) (length (fd_format d))) eqn:E; [lia|].
  rewrite andb_false_r. reflexivity.
Qed.

Theorem reject_wrong_prefix d s :
  firstn (prefix_length (fd_format d)) s <> firstn (prefix_length (fd_format d)) (fd_format d) ->
  parse_id d s = None.
Proof.
  intros H. unfold parse_id. destruct (validate d s) eqn:E; auto.
  apply validate_inv in E. destruct E as (_ & E & _). congruence.
Qed.

Theorem reject_missing_separator d s : has_underscore (fd_format d) = true ->
  nth (underscore_position (fd_format d)) s 0 <> us -> parse_id d s = None.
Proof.
  intros Hu H. unfold parse_id. destruct (validate d s) eqn:E; auto.
  apply validate_inv in E. destruct E as (_ & _ & E). specialize (E Hu). congruence.
Qed.

Theorem reject_non_hex d s t j : wf_desc d = true -> In t (fd_sections d) -> (j < seg_size d t)%nat ->
  hexval (nth (seg_first d t + j) s 0) = None -> parse_id d s = None.
Proof.
  intros Hwf Ht Hj Hn. unfold parse_id. destruct (validate d s) eqn:E; auto.
  apply validate_inv in E. destruct E as (Hlen & _ & _).
  apply parse_sections_none with (s := t); auto.
  unfold parse_section.
  assert (Hws : wf_sec d t) by (pose proof (wf_desc_secs d Hwf) as Hs; rewrite Forall_forall in Hs; auto).
  rewrite (parse_hex_bad _ j); auto.
  - rewrite sub_length; auto. destruct Hws; lia.
  - rewrite nth_sub by auto. exact Hn.
Qed.

Theorem reject_out_of_range d s t v lo hi : In t (fd_sections d) -> sec_range t = Some (lo, hi) ->
  parse_hex_list (sub s (seg_first d t) (seg_size d t)) = Some v -> (v < lo \/ hi < v) ->
  parse_id d s = None.
Proof.
  intros Ht Hr Hv Hout. unfold parse_id. destruct (validate d s); auto.
  apply parse_sections_none with (s := t); auto.
  unfold parse_section. rewrite Hv. simpl. unfold range_ok. rewrite Hr.
  destruct ((lo <=? v) && (v <=? hi))%bool eqn:E; auto. lia.
Qed.

Theorem format_too_wide d vs : length vs = length (fd_sections d) ->
  Exists (fun p => 16 ^ N.of_nat (seg_size d (fst p)) <= snd p) (combine (fd_sections d) vs) ->
  format_id d vs = None.
Proof. intros. unfold format_id. apply format_sections_wide; auto. Qed.
