(* Codec/IdCodecInst.v - the generic ID codec theorems instantiated on the descriptors
   regenerated from /repo (gen/IdTraitsGen.v).  The only facts about the generated
   tables are boolean checks decided by vm_compute. *)
From Adm Require Import Codec.IdCodecDefs Codec.IdCodecProofs gen.IdTraitsGen.
Local Open Scope N_scope.

Lemma translator_clean : translate_problems = [].
Proof. vm_compute. reflexivity. Qed.

Lemma all_formats_wf : forallb wf_desc all_formats = true.
Proof. vm_compute. reflexivity. Qed.

Lemma wf_of_in d : In d all_formats -> wf_desc d = true.
Proof. intros H. pose proof all_formats_wf as W. rewrite forallb_forall in W. auto. Qed.

(* the eleven ID types of the property (FrameFormatId has a short and a long descriptor) *)
Definition expected_formats : list (list N) :=
  map fd_format [d_AudioProgrammeId; d_AudioContentId; d_AudioObjectId; d_AudioPackFormatId;
                 d_AudioChannelFormatId; d_AudioBlockFormatId; d_AudioStreamFormatId;
                 d_AudioTrackFormatId; d_AudioTrackUidId; d_ShortFrameFormatId;
                 d_LongFrameFormatId; d_TransportId].
Lemma all_formats_complete : map fd_format all_formats = expected_formats.
Proof. vm_compute. reflexivity. Qed.

Lemma parse_format_all d vs : In d all_formats -> in_field_ranges d vs ->
  exists s, format_id d vs = Some s /\ parse_id d s = Some vs.
Proof. intros H. apply parse_format_generic, wf_of_in, H. Qed.

Lemma format_parse_all d s vs : In d all_formats -> parse_id d s = Some vs ->
  in_field_ranges d vs /\ exists r, format_id d vs = Some r /\ ci_eq r s.
Proof. intros H. apply format_parse_generic, wf_of_in, H. Qed.

Lemma reject_non_hex_all d s t j : In d all_formats -> In t (fd_sections d) -> (j < seg_size d t)%nat ->
  hexval (nth (seg_first d t + j) s 0) = None -> parse_id d s = None.
Proof. intros H. apply reject_non_hex, wf_of_in, H. Qed.

(* type descriptor field (the only validated field): values above 5 are rejected.
   Stated for every generated descriptor and every section carrying a range. *)
Lemma reject_type_field_all d s t v lo hi : In d all_formats -> In t (fd_sections d) ->
  sec_range t = Some (lo, hi) ->
  parse_hex_list (sub s (seg_first d t) (seg_size d t)) = Some v -> hi < v -> parse_id d s = None.
Proof. intros _ Ht Hr Hv Hhi. eapply reject_out_of_range; eauto. Qed.

(* every y-field (type descriptor) of every descriptor carries the range [0,5] *)
Definition type_fields_ranged : bool :=
  forallb (fun d => forallb (fun t => if sec_ident t =? 121 then
                                        match sec_range t with Some (0, 5) => true | _ => false end
                                      else match sec_range t with None => true | _ => false end)
                            (fd_sections d)) all_formats.
Lemma type_fields_ranged_ok : type_fields_ranged = true.
Proof. vm_compute. reflexivity. Qed.

(* ---- FrameFormatId dispatch ---- *)
Definition ff_short := d_ShortFrameFormatId.
Definition ff_long := d_LongFrameFormatId.

Lemma ff_short_in : In ff_short all_formats. Proof. vm_compute. tauto. Qed.
Lemma ff_long_in : In ff_long all_formats. Proof. vm_compute. tauto. Qed.
Lemma ff_lengths : length (fd_format ff_short) = 11%nat /\ length (fd_format ff_long) = 14%nat
  /\ length (fd_sections ff_short) = 1%nat /\ length (fd_sections ff_long) = 2%nat.
Proof. vm_compute. auto. Qed.

Definition ffid_in_range (v : N * option N) : Prop :=
  ffid_ctor v = Some v /\
  match v with
  | (fi, None) => in_field_ranges ff_short [fi]
  | (fi, Some ch) => in_field_ranges ff_long [fi; ch]
  end.

Lemma ffid_ctor_some v w : ffid_ctor v = Some w -> w = v.
Proof.
  unfold ffid_ctor. destruct v as [fi [c|]].
  - destruct ((fi =? 0) || (4294967295 <? fi))%bool; [discriminate|].
    destruct ((c =? 0) || (255 <? c))%bool; [discriminate|]. intros H; inversion H; auto.
  - destruct ((fi =? 0) || (4294967295 <? fi))%bool; [discriminate|]. intros H; inversion H; auto.
Qed.

Lemma ffid_parse_format v : ffid_in_range v ->
  exists s, format_ffid ff_short ff_long v = Some s /\ parse_ffid ff_short ff_long s = Some v.
Proof.
  destruct ff_lengths as (L1 & L2 & _).
  intros [Hc H]. unfold format_ffid. rewrite Hc.
  destruct v as [fi [ch|]].
  - destruct (parse_format_all _ _ ff_long_in H) as (s & Hf & Hp). exists s. split; auto.
    pose proof (format_id_length _ _ _ (wf_of_in _ ff_long_in) Hf) as Hl. rewrite L2 in Hl.
    unfold parse_ffid. rewrite Hl. simpl Nat.eqb. cbv iota. rewrite Hp. exact Hc.
  - destruct (parse_format_all _ _ ff_short_in H) as (s & Hf & Hp). exists s. split; auto.
    pose proof (format_id_length _ _ _ (wf_of_in _ ff_short_in) Hf) as Hl. rewrite L1 in Hl.
    unfold parse_ffid. rewrite Hl. simpl Nat.eqb. cbv iota. rewrite Hp. exact Hc.
Qed.

Lemma ffid_format_parse s v : parse_ffid ff_short ff_long s = Some v ->
  ffid_in_range v /\ exists r, format_ffid ff_short ff_long v = Some r /\ ci_eq r s.
Proof.
  unfold parse_ffid.
  destruct (Nat.eqb (length s) 14) eqn:E14.
  - destruct (parse_id ff_long s) as [[|fi [|ch [|? ?]]]|] eqn:Ep; try discriminate.
    intros H. pose proof (ffid_ctor_some _ _ H) as ->.
    destruct (format_parse_all _ _ _ ff_long_in Ep) as [Hr Hex].
    split; [split; assumption|]. unfold format_ffid. rewrite H. exact Hex.
  - destruct (Nat.eqb (length s) 11) eqn:E11; [|discriminate].
    destruct (parse_id ff_short s) as [[|fi [|? ?]]|] eqn:Ep; try discriminate.
    intros H. pose proof (ffid_ctor_some _ _ H) as ->.
    destruct (format_parse_all _ _ _ ff_short_in Ep) as [Hr Hex].
    split; [split; assumption|]. unfold format_ffid. rewrite H. exact Hex.
Qed.

(* a zero frame index or chunk index is rejected in both directions *)
Lemma ffid_zero_rejected fi ch : fi = 0 \/ ch = Some 0 -> ffid_ctor (fi, ch) = None.
Proof.
  unfold ffid_ctor. intros [-> | ->]; simpl; auto.
  destruct ((fi =? 0) || (4294967295 <? fi))%bool; auto.
Qed.

Lemma ffid_reject_length s : length s <> 11%nat -> length s <> 14%nat -> parse_ffid ff_short ff_long s = None.
Proof.
  intros H1 H2. unfold parse_ffid.
  destruct (Nat.eqb (length s) 14) eqn:E14; [apply Nat.eqb_eq in E14; lia|].
  destruct (Nat.eqb (length s) 11) eqn:E11; [apply Nat.eqb_eq in E11; lia|]. reflexivity.
Qed.

(* non-vacuity: a concrete non-trivial value of a three-section ID is in range, and round-trips *)
Example in_ranges_nonvacuous : in_field_ranges d_AudioBlockFormatId [3; 4097; 305419896].
Proof. repeat constructor; unfold fits; vm_compute; reflexivity. Qed.
Example ffid_in_range_nonvacuous : ffid_in_range (305419896, Some 171).
Proof. split; [vm_compute; reflexivity|]. repeat constructor; unfold fits; vm_compute; reflexivity. Qed.
Example roundtrip_example :
  format_id d_AudioBlockFormatId [3; 4097; 305419896]
  = Some [65; 66; 95; 48; 48; 48; 51; 49; 48; 48; 49; 95; 49; 50; 51; 52; 53; 54; 55; 56].
Proof. vm_compute. reflexivity. Qed.
