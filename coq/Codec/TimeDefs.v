(* Codec/TimeDefs.v - executable model of src/elements/time.cpp: parseTimecode (the two
   std::regex patterns as a hand-written recogniser, the nine-place accumulation, stoi range,
   zero denominator) and formatTimecode (FormatTimeVisitor: setw(2) minimum widths, trailing
   zero trimming down to five digits, integer division for the fractional form).
   Times are non-negative here ([N]); negative durations are outside the model. *)
From Adm Require Export Base.Util.
Local Open Scope N_scope.

Inductive time := Ns (n : N) | Frac (num den : N).

Definition is_digit (c : byte) : bool := (48 <=? c) && (c <=? 57).

(* ---------- decimal output ---------- *)
(* exactly [len] decimal digits of v (most significant first) and what is left over *)
Fixpoint decdigits (len : nat) (v : N) : str * N :=
  match len with
  | O => ([], v)
  | S l => let '(ds, rest) := decdigits l (v / 10) in (ds ++ [48 + v mod 10], rest)
  end.

(* number of decimal digits of n (at least one), on fuel = bit size of n *)
Fixpoint ndig (fuel : nat) (n : N) : nat :=
  match fuel with
  | O => 1
  | S f => if n <? 10 then 1%nat else S (ndig f (n / 10))
  end.
Definition ndigits (n : N) : nat := ndig (N.to_nat (N.size n)) n.

(* operator<< of a non-negative integer *)
Definition dec (n : N) : str := fst (decdigits (ndigits n) n).
(* std::setw(w) << std::setfill('0'): minimum width, never truncates *)
Definition setw (w : nat) (s : str) : str := repeat 48 (w - length s) ++ s.

(* the trailing-zero loop: while (ns % 10 == 0 && precision > 5) { ns /= 10; precision--; }
   (at most four iterations from precision 9) *)
Fixpoint trim (k : nat) (ns : N) (p : nat) : N * nat :=
  match k with
  | O => (ns, p)
  | S k' => if (ns mod 10 =? 0) && Nat.ltb 5 p then trim k' (ns / 10) (p - 1)%nat else (ns, p)
  end.

Definition colon : byte := 58.
Definition dot : byte := 46.
Definition bigS : byte := 83.

Definition format_time (t : time) : str :=
  match t with
  | Ns n =>
      let '(m, p) := trim 4 (n mod 1000000000) 9 in
      setw 2 (dec (n / 3600000000000)) ++ [colon]
      ++ setw 2 (dec ((n / 60000000000) mod 60)) ++ [colon]
      ++ setw 2 (dec ((n / 1000000000) mod 60)) ++ [dot]
      ++ setw p (dec m)
  | Frac num den =>
      let whole := num / den in
      let fnum := num - whole * den in
      setw 2 (dec (whole / 3600)) ++ [colon]
      ++ setw 2 (dec ((whole / 60) mod 60)) ++ [colon]
      ++ setw 2 (dec (whole mod 60)) ++ [dot]
      ++ dec fnum ++ [bigS] ++ dec den
  end.

(* ---------- decimal input ---------- *)
Definition dec_step (acc : option N) (c : byte) : option N :=
  match acc with
  | Some a => if is_digit c then Some (a * 10 + (c - 48)) else None
  | None => None
  end.
(* value of a digit string (std::stoi on an all-digit match) *)
Definition parse_dec_list (cs : str) : option N := fold_left dec_step cs (Some 0).

(* for (i = 8; i != -1; i--) if (i < ns_str.size()) ns += place_value * (ns_str[i] - '0') *)
Fixpoint frac_places (k : nat) (ds : str) : N :=
  match k with
  | O => 0
  | S k' => match ds with
            | [] => 0
            | d :: r => (d - 48) * 10 ^ N.of_nat k' + frac_places k' r
            end
  end.

Fixpoint span_digits (s : str) : str * str :=
  match s with
  | c :: r => if is_digit c then let '(a, b) := span_digits r in (c :: a, b) else ([], s)
  | [] => ([], [])
  end.

Definition int_max : N := 2147483647.
(* std::stoi: out_of_range above INT_MAX *)
Definition stoi (ds : str) : option N :=
  v <- parse_dec_list ds ;; if v <=? int_max then Some v else None.

(* '.' of an ECMAScript std::regex: any character except line terminators *)
Definition regex_any (c : byte) : bool := negb ((c =? 10) || (c =? 13)).

Definition parse_time (s : str) : option time :=
  match s with
  | h1 :: h2 :: c1 :: m1 :: m2 :: c2 :: s1 :: s2 :: sep :: rest =>
      if is_digit h1 && is_digit h2 && (c1 =? colon) && is_digit m1 && is_digit m2 && (c2 =? colon)
         && is_digit s1 && is_digit s2 && regex_any sep
      then
        let hh := (h1 - 48) * 10 + (h2 - 48) in
        let mm := (m1 - 48) * 10 + (m2 - 48) in
        let ss := (s1 - 48) * 10 + (s2 - 48) in
        let '(ds, after) := span_digits rest in
        match ds, after with
        | [], _ => None
        | _, [] =>                                   (* commonFormat *)
            Some (Ns (hh * 3600000000000 + mm * 60000000000 + ss * 1000000000 + frac_places 9 ds))
        | _, c :: ds2 =>                             (* fractionalFormat *)
            if c =? bigS then
              let '(dd, tail) := span_digits ds2 in
              match dd, tail with
              | [], _ => None
              | _, _ :: _ => None
              | _, [] =>
                  num <- stoi ds ;; den <- stoi dd ;;
                  if den =? 0 then None
                  else Some (Frac ((3600 * hh + 60 * mm + ss) * den + num) den)
              end
            else None
        end
      else None
  | _ => None
  end.
