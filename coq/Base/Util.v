(* Base/Util.v - small shared definitions: byte strings, option monad, list helpers.
   Bytes are [N] (0..255) so that range tests are linear arithmetic. *)
From Coq Require Export List NArith ZArith Bool Lia.
Export ListNotations.

(* notations, not definitions: [lia] must see [@length N] everywhere *)
Notation byte := N (only parsing).
Notation str := (list N) (only parsing).

Definition obind {A B} (o : option A) (f : A -> option B) : option B :=
  match o with Some a => f a | None => None end.
Notation "x <- e ;; k" := (obind e (fun x => k)) (at level 61, e at next level, right associativity).

Definition sub {A} (s : list A) (start len : nat) : list A := firstn len (skipn start s).
Definition splice {A} (s : list A) (start : nat) (ds : list A) : list A :=
  firstn start s ++ ds ++ skipn (start + length ds) s.

Fixpoint list_eqb {A} (eqb : A -> A -> bool) (a b : list A) : bool :=
  match a, b with
  | [], [] => true
  | x :: a', y :: b' => eqb x y && list_eqb eqb a' b'
  | _, _ => false
  end.

Definition str_eqb : str -> str -> bool := list_eqb N.eqb.
