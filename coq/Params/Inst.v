(* Params/Inst.v - the accessor rows regenerated from /repo, checked. *)
From Adm Require Import Params.Accessors Params.Contract gen.ParamsGen.

(* every scalar row (all accessors recognised, a setter and a getter present) implements one of the
   three documented patterns on one and the same slot *)
Definition all_scalar_rows_ok : bool := forallb (fun r => negb (scalar_row r) || row_ok r) accessor_rows.

Lemma scalar_rows_contract V dflt r : In r accessor_rows -> all_scalar_rows_ok = true -> scalar_row r = true ->
  exists p, row_pattern r = Some p /\ contract V dflt r p.
Proof.
  intros Hin Hall Hs. unfold all_scalar_rows_ok in Hall. rewrite forallb_forall in Hall.
  specialize (Hall r Hin). rewrite Hs in Hall. simpl in Hall. unfold row_ok in Hall.
  destruct (row_pattern r) as [p|] eqn:E; [|discriminate]. exists p. split; auto. apply row_contract; auto.
Qed.
