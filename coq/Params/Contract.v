(* Params/Contract.v - an accessor row accepted by [row_pattern] satisfies the documented contract,
   for every value type, every value and every state of the object's slots. *)
From Adm Require Import Params.Accessors.
Local Open Scope N_scope.

Lemma str_eqb_eq (a b : list N) : str_eqb a b = true <-> a = b.
Proof.
  unfold str_eqb. revert b; induction a as [|x a IH]; intros [|y b]; simpl; try (split; congruence).
  rewrite andb_true_iff, IH, N.eqb_eq. split; [intros [-> ->]; reflexivity|intros H; inversion H; auto].
Qed.
Lemma str_eqb_refl a : str_eqb a a = true.
Proof. apply str_eqb_eq; reflexivity. Qed.

Section Contract.
Variable V : Type.
Variable dflt : list N -> V.

(* the slot a well-formed row works on *)
Definition row_slot (r : row) : list N := match r_set r with Assign s => s | _ => [] end.

Record contract (r : row) (p : pattern) : Prop := {
  (* after set(v): get returns v, has is true, isDefault is false, no other slot changed *)
  c_set : forall st v, exists st',
      sem_set V (r_set r) st v = Some st'
      /\ sem_get V dflt (r_get r) st' = Some v
      /\ (r_has r = Absent \/ sem_bool V (r_has r) st' = Some true)
      /\ (r_isdefault r = Absent \/ sem_bool V (r_isdefault r) st' = Some false)
      /\ (forall s, s <> row_slot r -> st' s = st s);
  (* whenever has is true, get succeeds (a required parameter is a plain member: it always holds a value) *)
  c_has_get : forall st, (p = PRequired -> st (row_slot r) <> None) ->
                         (r_has r = Absent \/ sem_bool V (r_has r) st = Some true) ->
                         exists v, sem_get V dflt (r_get r) st = Some v;
  (* after unset: optional -> has false; default -> has true, isDefault true, get is the documented default *)
  c_unset : p <> PRequired -> forall st, exists st',
      sem_unset V (r_unset r) st = Some st'
      /\ (p = POptional -> sem_bool V (r_has r) st' = Some false)
      /\ (p = PDefault -> sem_bool V (r_has r) st' = Some true /\ sem_bool V (r_isdefault r) st' = Some true
                          /\ exists d, r_get r = GetOr (row_slot r) d /\ sem_get V dflt (r_get r) st' = Some (dflt d))
      /\ (forall s, s <> row_slot r -> st' s = st s)
}.

Lemma upd_same st (s : list N) (v : option V) : upd_slot V st s v s = v.
Proof. unfold upd_slot. rewrite str_eqb_refl. reflexivity. Qed.
Lemma upd_other st (s s' : list N) (v : option V) : s' <> s -> upd_slot V st s v s' = st s'.
Proof. intros H. unfold upd_slot. destruct (str_eqb s' s) eqn:E; auto. apply str_eqb_eq in E. congruence. Qed.

Theorem row_contract r p : row_pattern r = Some p -> contract r p.
Proof.
  unfold row_pattern. destruct r as [c pa g h d s u]; simpl.
  destruct s as [| | | | | | | | |sl| | |]; try discriminate.
  destruct g as [| | | | | |s1|s1|s1 dd| | | |]; try discriminate.
  - (* GetSlot: optional *)
    destruct h as [| | |s2| | | | | | | | |]; try discriminate.
    destruct d as [| | | |s4| | | | | | | |]; try discriminate;
      destruct u as [| | | | | | | | | |s3| |]; try discriminate.
    + destruct (str_eqb s1 sl && str_eqb s2 sl && str_eqb s3 sl)%bool eqn:E; [|discriminate].
      rewrite !andb_true_iff, !str_eqb_eq in E. destruct E as [[-> ->] ->]. intros H; inversion H; subst p.
      constructor; simpl.
      * intros st v. eexists; split; [reflexivity|]. rewrite !upd_same. repeat split; auto.
        intros s Hs. apply upd_other; auto.
      * intros st _ [Hh|Hh]; [discriminate|]. destruct (st sl) eqn:Es; [eauto|discriminate].
      * intros _ st. eexists; split; [reflexivity|]. rewrite !upd_same. repeat split; auto; try discriminate.
        intros s Hs. apply upd_other; auto.
    + destruct (str_eqb s1 sl && str_eqb s2 sl && str_eqb s3 sl)%bool eqn:E; [|discriminate].
      rewrite !andb_true_iff, !str_eqb_eq in E. destruct E as [[-> ->] ->]. intros H; inversion H; subst p.
      constructor; simpl.
      * intros st v. eexists; split; [reflexivity|]. rewrite !upd_same. repeat split; auto.
        intros s Hs. apply upd_other; auto.
      * intros st _ [Hh|Hh]; [discriminate|]. destruct (st sl) eqn:Es; [eauto|discriminate].
      * intros _ st. eexists; split; [reflexivity|]. rewrite !upd_same. repeat split; auto; try discriminate.
        intros s Hs. apply upd_other; auto.
    + destruct (str_eqb s1 sl && str_eqb s2 sl && str_eqb s3 sl && str_eqb s4 sl)%bool eqn:E; [|discriminate].
      rewrite !andb_true_iff, !str_eqb_eq in E. destruct E as [[[-> ->] ->] ->]. intros H; inversion H; subst p.
      constructor; simpl.
      * intros st v. eexists; split; [reflexivity|]. rewrite !upd_same. repeat split; auto.
        intros s Hs. apply upd_other; auto.
      * intros st _ [Hh|Hh]; [discriminate|]. destruct (st sl) eqn:Es; [eauto|discriminate].
      * intros _ st. eexists; split; [reflexivity|]. rewrite !upd_same. repeat split; auto; try discriminate.
        intros s Hs. apply upd_other; auto.
  - (* GetReq: required *)
    destruct h as [|?| | | | | | | | | | |]; try discriminate;
      destruct d as [| |?| | | | | | | | | |]; try discriminate;
      destruct u; try discriminate;
      (destruct (str_eqb s1 sl) eqn:E; [|discriminate]; apply str_eqb_eq in E; subst s1;
       intros H; inversion H; subst p; constructor; simpl;
       [intros st v; eexists; split; [reflexivity|]; rewrite !upd_same; repeat split; auto;
        intros s Hs; apply upd_other; auto
       |intros st Hreq _; specialize (Hreq eq_refl); unfold row_slot in Hreq; simpl in Hreq;
        destruct (st sl) eqn:Es; [eauto|exfalso; apply Hreq; reflexivity]
       |intros Hp; congruence]).
  - (* GetOr: default *)
    destruct h as [|?| | | | | | | | | | |]; try discriminate.
    destruct d as [| | | |s2| | | | | | | |]; try discriminate.
    destruct u as [| | | | | | | | | |s3| |]; try discriminate.
    destruct (str_eqb s1 sl && str_eqb s2 sl && str_eqb s3 sl)%bool eqn:E; [|discriminate].
    rewrite !andb_true_iff, !str_eqb_eq in E. destruct E as [[-> ->] ->]. intros H; inversion H; subst p.
    constructor; simpl.
    + intros st v. eexists; split; [reflexivity|]. rewrite !upd_same. repeat split; auto.
      intros s Hs. apply upd_other; auto.
    + intros st _ _. eauto.
    + intros _ st. eexists; split; [reflexivity|]. rewrite !upd_same. split; [discriminate|]. split.
      * intros _. repeat split; auto. exists dd. split; reflexivity.
      * intros s Hs. apply upd_other; auto.
Qed.
End Contract.
