(* Params/Accessors.v - M6: the get/set/has/unset/isDefault convention.
   (1) An expression language for the one-line accessor bodies of the hand-written element classes,
       its semantics over a store of optional member slots, a boolean checker [row_ok] and the
       theorem that an accepted row satisfies the documented contract.
   (2) The auto_base templates (Required / Optional / Default parameter) as the same kind of rows,
       so that the same theorem covers them. *)
From Adm Require Export Base.Util.
Local Open Scope N_scope.

Inductive aexpr :=
  | Absent                      (* the accessor is not defined for this parameter *)
  | ConstTrue | ConstFalse
  | NotNone (slot : list N)     (* return slot != boost::none *)
  | IsNone (slot : list N)      (* return slot == boost::none *)
  | NonEmpty (slot : list N)
  | GetSlot (slot : list N)     (* return slot.get() *)
  | GetReq (slot : list N)      (* return slot  (plain member) *)
  | GetOr (slot dflt : list N)  (* return boost::get_optional_value_or(slot, default) *)
  | Assign (slot : list N)      (* slot = value *)
  | Clear (slot : list N)       (* slot = boost::none *)
  | ClearVec (slot : list N)
  | Opaque (text : list N).

Inductive template := TRequired | TOptional | TDefault | TVector | TVariant.

Record row := mkRow {
  r_class : list N; r_param : list N;
  r_get : aexpr; r_has : aexpr; r_isdefault : aexpr; r_set : aexpr; r_unset : aexpr
}.

(* ---------- semantics: a store of optional slots holding values of one type V ---------- *)
Section Sem.
Variable V : Type.
Definition store := list N -> option V.
Definition upd_slot (st : store) (s : list N) (v : option V) : store :=
  fun x => if str_eqb x s then v else st x.

(* the value a getter returns: Some v, or None when the C++ would throw / dereference nothing *)
Definition sem_get (dflt : list N -> V) (e : aexpr) (st : store) : option V :=
  match e with
  | GetSlot s | GetReq s => st s
  | GetOr s d => Some (match st s with Some v => v | None => dflt d end)
  | _ => None
  end.
Definition sem_bool (e : aexpr) (st : store) : option bool :=
  match e with
  | ConstTrue => Some true
  | ConstFalse => Some false
  | NotNone s => Some (match st s with Some _ => true | None => false end)
  | IsNone s => Some (match st s with Some _ => false | None => true end)
  | _ => None
  end.
Definition sem_set (e : aexpr) (st : store) (v : V) : option store :=
  match e with Assign s => Some (upd_slot st s (Some v)) | _ => None end.
Definition sem_unset (e : aexpr) (st : store) : option store :=
  match e with Clear s => Some (upd_slot st s None) | _ => None end.
End Sem.

(* ---------- the checker ---------- *)
Inductive pattern := PRequired | POptional | PDefault.

(* which documented pattern the row implements, if it is one of the three scalar patterns with all
   accessors on one and the same slot *)
Definition row_pattern (r : row) : option pattern :=
  match r_set r with
  | Assign s =>
      match r_get r, r_has r, r_isdefault r, r_unset r with
      | GetOr s1 _, ConstTrue, IsNone s2, Clear s3 =>
          if str_eqb s1 s && str_eqb s2 s && str_eqb s3 s then Some PDefault else None
      | GetSlot s1, NotNone s2, (Absent | ConstFalse), Clear s3 =>
          if str_eqb s1 s && str_eqb s2 s && str_eqb s3 s then Some POptional else None
      | GetSlot s1, NotNone s2, IsNone s4, Clear s3 =>
          if str_eqb s1 s && str_eqb s2 s && str_eqb s3 s && str_eqb s4 s then Some POptional else None
      | GetReq s1, (ConstTrue | Absent), (Absent | ConstFalse), Absent =>
          if str_eqb s1 s then Some PRequired else None
      | _, _, _, _ => None
      end
  | _ => None
  end.

Definition has_opaque (r : row) : bool :=
  match r_get r, r_has r, r_isdefault r, r_set r, r_unset r with
  | Opaque _, _, _, _, _ | _, Opaque _, _, _, _ | _, _, Opaque _, _, _ | _, _, _, Opaque _, _ | _, _, _, _, Opaque _ => true
  | _, _, _, _, _ => false
  end.

(* a row is acceptable when it implements one of the patterns; rows with opaque bodies and rows that
   only define part of the accessors (vector / variant parameters, read-only views) are listed separately *)
Definition row_ok (r : row) : bool := match row_pattern r with Some _ => true | None => false end.

Definition scalar_row (r : row) : bool :=
  negb (has_opaque r) &&
  match r_set r, r_get r with
  | Assign _, (GetSlot _ | GetReq _ | GetOr _ _) => true
  | _, _ => false
  end.
