(* Xml/Nav.v - C07: the XML navigation of libadm's parsers on a model of rapidxml's tree.
   A node's children form a list; `first_node()` is the head of that list and `next_sibling()` the head of the rest.
   (1) a sibling loop that advances its own cursor visits every sibling once, in order, and stops;
   (2) a loop that takes the next sibling of some other fixed node (the defect in FrameHeaderParser::parse that the
       checker below rules out) never stops once it has started on a non-matching node;
   (3) a search that recurses only into children terminates, with a recursion depth bounded by the tree's depth.
   The checker ties the three shapes to the regenerated inventory gen/NavGen.v. *)
From Adm Require Import Base.Util gen.NavGen Xml.GenericProofs.
Local Open Scope N_scope.

Inductive xtree := XNode (name : list N) (kids : list xtree).
Definition xname (t : xtree) := match t with XNode n _ => n end.
Definition xkids (t : xtree) := match t with XNode _ k => k end.

Section Loops.
Variable R : Type.
Variable body : xtree -> option R.        (* Some r: the loop body returns r; None: it continues *)

(* for (n = first; n; n = n->next_sibling()) body(n) - the cursor is the list of the remaining siblings *)
Fixpoint sib_loop (sibs : list xtree) : option R :=
  match sibs with [] => None | n :: rest => match body n with Some r => Some r | None => sib_loop rest end end.

Lemma sib_loop_none sibs : sib_loop sibs = None <-> forall n, In n sibs -> body n = None.
Proof.
  induction sibs as [|n rest IH]; simpl.
  - split; auto. intros _ n [].
  - destruct (body n) eqn:E.
    + split; [discriminate|]. intros H. rewrite (H n) in E; [discriminate|left; reflexivity].
    + rewrite IH. split.
      * intros H x [-> | Hx]; auto.
      * intros H x Hx. apply H. right. exact Hx.
Qed.
Lemma sib_loop_some sibs r : sib_loop sibs = Some r ->
  exists pre n post, sibs = pre ++ n :: post /\ body n = Some r /\ forall m, In m pre -> body m = None.
Proof.
  induction sibs as [|n rest IH]; simpl; [discriminate|].
  destruct (body n) eqn:E.
  - intros H. inversion H; subst. exists [], n, rest. repeat split; auto. intros m [].
  - intros H. destruct (IH H) as (pre & x & post & -> & Hx & Hpre).
    exists (n :: pre), x, post. repeat split; auto. intros m [-> | Hm]; auto.
Qed.

(* the same loop with an explicit step function and fuel, as the C++ executes it *)
Inductive outcome := Done (r : option R) | OutOfFuel.
Fixpoint run_loop (step : list xtree -> list xtree) (fuel : nat) (cur : list xtree) : outcome :=
  match fuel with
  | O => OutOfFuel
  | S f => match cur with
           | [] => Done None
           | n :: _ => match body n with Some r => Done (Some r) | None => run_loop step f (step cur) end
           end
  end.
(* advancing the cursor itself: terminates within (number of siblings + 1) steps with the result of sib_loop *)
Lemma advancing_loop_terminates sibs : forall fuel, (length sibs < fuel)%nat ->
  run_loop (@tl xtree) fuel sibs = Done (sib_loop sibs).
Proof.
  induction sibs as [|n rest IH]; intros fuel Hf; destruct fuel as [|f]; simpl in *; try (exfalso; apply (Nat.nlt_0_r _ Hf)); auto.
  destruct (body n); [reflexivity|]. apply IH. apply Nat.succ_lt_mono. exact Hf.
Qed.
(* taking the next sibling of a fixed other node: once on a non-matching node, and that other node has a
   non-matching next sibling, the loop never stops *)
Lemma nonadvancing_loop_diverges (other_next : list xtree) n rest m rest' :
  other_next = m :: rest' -> body n = None -> body m = None ->
  forall fuel, run_loop (fun _ => other_next) fuel (n :: rest) = OutOfFuel.
Proof.
  intros -> Hn Hm fuel. destruct fuel as [|f]; simpl; [reflexivity|]. rewrite Hn.
  induction f as [|f IH]; simpl; [reflexivity|]. rewrite Hm. exact IH.
Qed.
End Loops.

(* ---------- recursive searches ---------- *)
Fixpoint depth (t : xtree) : nat :=
  match t with XNode _ kids => S (fold_right (fun k d => Nat.max (depth k) d) O kids) end.

(* findFrameNode: the name of the node, else recurse into the FIRST child only *)
Fixpoint find_first_chain (fuel : nat) (target : list (list N)) (t : xtree) : option (option xtree) :=
  match fuel with
  | O => None                                   (* out of fuel *)
  | S f => if existsb (str_eqb (xname t)) target then Some (Some t)
           else match xkids t with [] => Some None | k :: _ => find_first_chain f target k end
  end.
Lemma depth_first_kid n k rest : (depth k < depth (XNode n (k :: rest)))%nat.
Proof. simpl. apply Nat.lt_succ_r. apply Nat.le_max_l. Qed.
Lemma find_first_chain_terminates target : forall t fuel, (depth t <= fuel)%nat -> find_first_chain fuel target t <> None.
Proof.
  intros t fuel. revert t. induction fuel as [|f IH]; intros t Hd.
  - destruct t; simpl in Hd. exfalso. apply (Nat.nle_succ_0 _ Hd).
  - simpl. destruct (existsb (str_eqb (xname t)) target); [discriminate|].
    destruct t as [n [|k rest]]; simpl; [discriminate|]. apply IH.
    pose proof (depth_first_kid n k rest). apply Nat.lt_succ_r. eapply Nat.lt_le_trans; eauto.
Qed.

(* findAudioFormatExtendedNodeFullRecursive: depth-first over all children *)
Fixpoint find_rec (fuel : nat) (target : list N) (t : xtree) : option (option xtree) :=
  match fuel with
  | O => None
  | S f => if str_eqb (xname t) target then Some (Some t)
           else (fix over (ks : list xtree) : option (option xtree) :=
                   match ks with
                   | [] => Some None
                   | k :: rest => match find_rec f target k with
                                  | None => None
                                  | Some (Some r) => Some (Some r)
                                  | Some None => over rest
                                  end
                   end) (xkids t)
  end.
Lemma depth_kid n kids k : In k kids -> (depth k < depth (XNode n kids))%nat.
Proof.
  intros Hin. simpl. apply Nat.lt_succ_r. induction kids as [|x rest IH]; [contradiction|].
  simpl. destruct Hin as [-> | Hin]; [apply Nat.le_max_l|]. eapply Nat.le_trans; [apply IH; exact Hin|apply Nat.le_max_r].
Qed.
Lemma find_rec_terminates target : forall fuel t, (depth t <= fuel)%nat -> find_rec fuel target t <> None.
Proof.
  induction fuel as [|f IH]; intros t Hd.
  - destruct t; simpl in Hd. exfalso. apply (Nat.nle_succ_0 _ Hd).
  - simpl. destruct (str_eqb (xname t) target); [discriminate|].
    destruct t as [n kids]. simpl.
    assert (Hk : forall k, In k kids -> (depth k <= f)%nat).
    { intros k Hin. pose proof (depth_kid n kids k Hin). apply Nat.lt_succ_r. eapply Nat.lt_le_trans; eauto. }
    clear Hd. induction kids as [|k rest IHk]; [discriminate|].
    specialize (IH k (Hk k (or_introl eq_refl))).
    destruct (find_rec f target k) as [[r|]|]; [discriminate| |contradiction].
    apply IHk. intros x Hx. apply Hk. right. exact Hx.
Qed.

(* ---------- the tie ---------- *)
Definition step_self (s : list N * list N * list N) : bool := str_eqb (snd (fst s)) (snd s).
Definition rec_child (r : list N * list N * list N * bool) : bool := snd r.
Definition nav_ok : bool :=
  forallb step_self sibling_steps && forallb rec_child recursions &&
  match nav_problems with [] => true | _ => false end &&
  negb (Nat.eqb (length sibling_steps) 0).
Lemma nav_ok_true : nav_ok = true.
Proof. vm_compute. reflexivity. Qed.
Lemma nav_ok_spec : nav_ok = true ->
  (forall f v r, In (f, v, r) sibling_steps -> v = r) /\ (forall f n a c, In (f, n, a, c) recursions -> c = true) /\ nav_problems = [].
Proof.
  unfold nav_ok. rewrite !andb_true_iff. intros [[[H1 H2] H3] _]. rewrite forallb_forall in H1, H2. split; [|split].
  - intros f v r Hin. specialize (H1 _ Hin). unfold step_self in H1. simpl in H1. apply str_eqb_true in H1. exact H1.
  - intros f n a c Hin. specialize (H2 _ Hin). exact H2.
  - destruct nav_problems; [reflexivity|discriminate].
Qed.
