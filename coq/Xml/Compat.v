(* Xml/Compat.v - verified checkers on the writer / parser tables:
   [w_p_compatible]: whatever a format function emits under a literal XML name is read back by the paired
   parse function under the same name, in the same syntactic class (attribute / sub-element / reference)
   and for the same parameter type;   [p_w_covered]: the converse (nothing the parser stores is never written). *)
From Adm Require Export Xml.Tables.
Local Open Scope N_scope.

Inductive xclass := CAttr | CElem | CRef | COther.
Definition wclass (k : wkind) : xclass :=
  match k with
  | WAttr | WOptAttr | WLitAttr => CAttr
  | WElem | WOptElem | WMulti | WOptMulti | WElems | WVector | WBase | WLitElem => CElem
  | WRef | WOptRef | WRefs => CElem        (* an IDRef is a sub-element *)
  | _ => COther
  end.
Definition pclass (k : pkind) : xclass :=
  match k with
  | PAttrReq | PAttrOpt => CAttr
  | PElemOpt | PElemReq | PMultiOpt | PMultiReq | PElems => CElem
  | PRefs | PRef => CElem
  | _ => COther
  end.
Definition xclass_eqb (a b : xclass) : bool :=
  match a, b with CAttr, CAttr | CElem, CElem | CRef, CRef | COther, COther => true | _, _ => false end.

Fixpoint is_prefix (a b : list N) : bool :=
  match a, b with
  | [], _ => true
  | x :: a', y :: b' => (x =? y) && is_prefix a' b'
  | _, [] => false
  end.
(* parameter types agree: identical, or singular/plural of a vector type (Label / Labels), or element / its ID type *)
Definition is_suffix (a b : list N) : bool := is_prefix (rev a) (rev b).
(* ... or a variant and one of its alternatives (ContentKind / DialogueContentKind, Position / SphericalPosition) *)
Definition param_agrees (pw pp : list N) : bool :=
  is_prefix pw pp || is_prefix pp pw || is_suffix pw pp || is_suffix pp pw.

Definition dollar : N := 36.
Definition literal_name (n : list N) : bool := match n with [] => false | c :: _ => negb (c =? dollar) end.

Definition wname (r : wrow) : list N := snd (fst r).
Definition wparam (r : wrow) : list N := snd (fst (fst r)).
Definition wk (r : wrow) : wkind := fst (fst (fst r)).
Definition pname (r : prow) : list N := snd (fst r).
Definition pparam (r : prow) : list N := snd (fst (fst r)).
Definition pk (r : prow) : pkind := fst (fst (fst r)).

Definition w_matched (pt : list prow) (w : wrow) : bool :=
  match wclass (wk w) with
  | COther => true
  | c => negb (literal_name (wname w)) ||
         existsb (fun p => xclass_eqb (pclass (pk p)) c && str_eqb (pname p) (wname w) && param_agrees (wparam w) (pparam p)) pt
  end.
Definition p_matched (wt : list wrow) (p : prow) : bool :=
  match pclass (pk p) with
  | COther => true
  | c => negb (literal_name (pname p)) ||
         existsb (fun w => xclass_eqb (wclass (wk w)) c && str_eqb (wname w) (pname p) && param_agrees (wparam w) (pparam p)) wt
  end.

Definition w_p_compatible (wt : list wrow) (pt : list prow) : bool := forallb (w_matched pt) wt.
Definition p_w_covered (pt : list prow) (wt : list wrow) : bool := forallb (p_matched wt) pt.

(* literal attribute values the writer emits (coordinate="azimuth", typeDefinition="highPass", bound="min")
   are literals the paired parser compares the attribute with *)
Definition wcustom (r : wrow) : list N := snd r.
Definition is_wlit (k : wkind) : bool := match k with WLitAttr => true | _ => false end.
Definition is_plit (k : pkind) : bool := match k with PLit => true | _ => false end.
Definition lit_read (pt : list prow) (w : wrow) : bool :=
  negb (is_wlit (wk w)) || match wcustom w with [] => true | v => existsb (fun p => is_plit (pk p) && str_eqb (pname p) v) pt end.
Definition lit_values_read (wt : list wrow) (pt : list prow) : bool := forallb (lit_read pt) wt.

Lemma lit_values_read_spec wt pt : lit_values_read wt pt = true ->
  forall w, In w wt -> wk w = WLitAttr -> wcustom w <> [] ->
  exists p, In p pt /\ pk p = PLit /\ str_eqb (pname p) (wcustom w) = true.
Proof.
  unfold lit_values_read. rewrite forallb_forall. intros H w Hw Hk Hv. specialize (H w Hw).
  unfold lit_read in H. rewrite Hk in H. simpl in H. destruct (wcustom w) as [|c v] eqn:E; [congruence|].
  apply existsb_exists in H. destruct H as (p & Hp & H). apply andb_true_iff in H. destruct H as [H1 H2].
  exists p. repeat split; auto. destruct (pk p); simpl in H1; congruence.
Qed.

(* what the checkers mean *)
Lemma w_p_compatible_spec wt pt : w_p_compatible wt pt = true ->
  forall w, In w wt -> wclass (wk w) <> COther -> literal_name (wname w) = true ->
  exists p, In p pt /\ pclass (pk p) = wclass (wk w) /\ pname p = wname w /\ param_agrees (wparam w) (pparam p) = true.
Proof.
  unfold w_p_compatible. rewrite forallb_forall. intros H w Hw Hc Hl. specialize (H w Hw).
  unfold w_matched in H. rewrite Hl in H. simpl in H.
  destruct (wclass (wk w)) eqn:Ec; try congruence;
    (apply existsb_exists in H; destruct H as (p & Hp & H); rewrite !andb_true_iff in H; destruct H as [[H1 H2] H3];
     exists p; repeat split; auto;
     [destruct (pclass (pk p)); simpl in H1; congruence
     |clear - H2; revert H2; generalize (pname p) (wname w); induction l as [|x l IH]; intros [|y l'] H; simpl in *; try discriminate; auto;
      apply andb_true_iff in H; destruct H as [Hx Hl]; apply N.eqb_eq in Hx; subst; f_equal; apply IH; auto]).
Qed.
