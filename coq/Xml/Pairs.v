(* Xml/Pairs.v - which format function is read back by which parse function, and the XML names handled by
   hand-written loops.  GENERATED from tools/xml_pairs.py (a hand-written list); a pair naming a function that is
   missing from the regenerated tables makes the checks fail. *)
From Adm Require Import Xml.Tables Xml.Compat gen.XmlTabGen.
Local Open Scope N_scope.

Fixpoint assoc_tab {A} (k : list N) (l : list (list N * A)) : option A :=
  match l with [] => None | (k', v) :: r => if str_eqb k k' then Some v else assoc_tab k r end.

Definition pairs : list (list (list N) * list (list N)) := [
  (* formatAudioProgramme / parseAudioProgramme *)
  ([[102; 111; 114; 109; 97; 116; 65; 117; 100; 105; 111; 80; 114; 111; 103; 114; 97; 109; 109; 101]], [[112; 97; 114; 115; 101; 65; 117; 100; 105; 111; 80; 114; 111; 103; 114; 97; 109; 109; 101]]);
  (* formatAudioContent / parseAudioContent *)
  ([[102; 111; 114; 109; 97; 116; 65; 117; 100; 105; 111; 67; 111; 110; 116; 101; 110; 116]], [[112; 97; 114; 115; 101; 65; 117; 100; 105; 111; 67; 111; 110; 116; 101; 110; 116]]);
  (* formatAudioObject / parseAudioObject *)
  ([[102; 111; 114; 109; 97; 116; 65; 117; 100; 105; 111; 79; 98; 106; 101; 99; 116]], [[112; 97; 114; 115; 101; 65; 117; 100; 105; 111; 79; 98; 106; 101; 99; 116]]);
  (* formatAudioPackFormat / parseAudioPackFormat *)
  ([[102; 111; 114; 109; 97; 116; 65; 117; 100; 105; 111; 80; 97; 99; 107; 70; 111; 114; 109; 97; 116]], [[112; 97; 114; 115; 101; 65; 117; 100; 105; 111; 80; 97; 99; 107; 70; 111; 114; 109; 97; 116]]);
  (* formatAudioChannelFormat / parseAudioChannelFormat *)
  ([[102; 111; 114; 109; 97; 116; 65; 117; 100; 105; 111; 67; 104; 97; 110; 110; 101; 108; 70; 111; 114; 109; 97; 116]], [[112; 97; 114; 115; 101; 65; 117; 100; 105; 111; 67; 104; 97; 110; 110; 101; 108; 70; 111; 114; 109; 97; 116]]);
  (* formatAudioStreamFormat / parseAudioStreamFormat *)
  ([[102; 111; 114; 109; 97; 116; 65; 117; 100; 105; 111; 83; 116; 114; 101; 97; 109; 70; 111; 114; 109; 97; 116]], [[112; 97; 114; 115; 101; 65; 117; 100; 105; 111; 83; 116; 114; 101; 97; 109; 70; 111; 114; 109; 97; 116]]);
  (* formatAudioTrackFormat / parseAudioTrackFormat *)
  ([[102; 111; 114; 109; 97; 116; 65; 117; 100; 105; 111; 84; 114; 97; 99; 107; 70; 111; 114; 109; 97; 116]], [[112; 97; 114; 115; 101; 65; 117; 100; 105; 111; 84; 114; 97; 99; 107; 70; 111; 114; 109; 97; 116]]);
  (* formatAudioTrackUid / parseAudioTrackUid *)
  ([[102; 111; 114; 109; 97; 116; 65; 117; 100; 105; 111; 84; 114; 97; 99; 107; 85; 105; 100]], [[112; 97; 114; 115; 101; 65; 117; 100; 105; 111; 84; 114; 97; 99; 107; 85; 105; 100]]);
  (* formatAudioObjectInteraction / parseAudioObjectInteraction *)
  ([[102; 111; 114; 109; 97; 116; 65; 117; 100; 105; 111; 79; 98; 106; 101; 99; 116; 73; 110; 116; 101; 114; 97; 99; 116; 105; 111; 110]], [[112; 97; 114; 115; 101; 65; 117; 100; 105; 111; 79; 98; 106; 101; 99; 116; 73; 110; 116; 101; 114; 97; 99; 116; 105; 111; 110]]);
  (* formatBlockFormatDirectSpeakers / parseAudioBlockFormatDirectSpeakers *)
  ([[102; 111; 114; 109; 97; 116; 66; 108; 111; 99; 107; 70; 111; 114; 109; 97; 116; 68; 105; 114; 101; 99; 116; 83; 112; 101; 97; 107; 101; 114; 115]], [[112; 97; 114; 115; 101; 65; 117; 100; 105; 111; 66; 108; 111; 99; 107; 70; 111; 114; 109; 97; 116; 68; 105; 114; 101; 99; 116; 83; 112; 101; 97; 107; 101; 114; 115]]);
  (* formatBlockFormatObjects / parseAudioBlockFormatObjects *)
  ([[102; 111; 114; 109; 97; 116; 66; 108; 111; 99; 107; 70; 111; 114; 109; 97; 116; 79; 98; 106; 101; 99; 116; 115]], [[112; 97; 114; 115; 101; 65; 117; 100; 105; 111; 66; 108; 111; 99; 107; 70; 111; 114; 109; 97; 116; 79; 98; 106; 101; 99; 116; 115]]);
  (* formatBlockFormatHoa / parseAudioBlockFormatHoa *)
  ([[102; 111; 114; 109; 97; 116; 66; 108; 111; 99; 107; 70; 111; 114; 109; 97; 116; 72; 111; 97]], [[112; 97; 114; 115; 101; 65; 117; 100; 105; 111; 66; 108; 111; 99; 107; 70; 111; 114; 109; 97; 116; 72; 111; 97]]);
  (* formatBlockFormatBinaural / parseAudioBlockFormatBinaural *)
  ([[102; 111; 114; 109; 97; 116; 66; 108; 111; 99; 107; 70; 111; 114; 109; 97; 116; 66; 105; 110; 97; 117; 114; 97; 108]], [[112; 97; 114; 115; 101; 65; 117; 100; 105; 111; 66; 108; 111; 99; 107; 70; 111; 114; 109; 97; 116; 66; 105; 110; 97; 117; 114; 97; 108]]);
  (* formatChannelLock / parseChannelLock *)
  ([[102; 111; 114; 109; 97; 116; 67; 104; 97; 110; 110; 101; 108; 76; 111; 99; 107]], [[112; 97; 114; 115; 101; 67; 104; 97; 110; 110; 101; 108; 76; 111; 99; 107]]);
  (* formatJumpPosition / parseJumpPosition *)
  ([[102; 111; 114; 109; 97; 116; 74; 117; 109; 112; 80; 111; 115; 105; 116; 105; 111; 110]], [[112; 97; 114; 115; 101; 74; 117; 109; 112; 80; 111; 115; 105; 116; 105; 111; 110]]);
  (* formatObjectDivergence / parseObjectDivergence *)
  ([[102; 111; 114; 109; 97; 116; 79; 98; 106; 101; 99; 116; 68; 105; 118; 101; 114; 103; 101; 110; 99; 101]], [[112; 97; 114; 115; 101; 79; 98; 106; 101; 99; 116; 68; 105; 118; 101; 114; 103; 101; 110; 99; 101]]);
  (* formatHeadphoneVirtualise / parseHeadphoneVirtualise *)
  ([[102; 111; 114; 109; 97; 116; 72; 101; 97; 100; 112; 104; 111; 110; 101; 86; 105; 114; 116; 117; 97; 108; 105; 115; 101]], [[112; 97; 114; 115; 101; 72; 101; 97; 100; 112; 104; 111; 110; 101; 86; 105; 114; 116; 117; 97; 108; 105; 115; 101]]);
  (* formatLoudnessMetadata / parseLoudnessMetadata *)
  ([[102; 111; 114; 109; 97; 116; 76; 111; 117; 100; 110; 101; 115; 115; 77; 101; 116; 97; 100; 97; 116; 97]], [[112; 97; 114; 115; 101; 76; 111; 117; 100; 110; 101; 115; 115; 77; 101; 116; 97; 100; 97; 116; 97]]);
  (* formatFrameFormat / parseFrameFormat *)
  ([[102; 111; 114; 109; 97; 116; 70; 114; 97; 109; 101; 70; 111; 114; 109; 97; 116]], [[112; 97; 114; 115; 101; 70; 114; 97; 109; 101; 70; 111; 114; 109; 97; 116]]);
  (* formatTransportTrackFormat / parseTransportTrackFormat *)
  ([[102; 111; 114; 109; 97; 116; 84; 114; 97; 110; 115; 112; 111; 114; 116; 84; 114; 97; 99; 107; 70; 111; 114; 109; 97; 116]], [[112; 97; 114; 115; 101; 84; 114; 97; 110; 115; 112; 111; 114; 116; 84; 114; 97; 99; 107; 70; 111; 114; 109; 97; 116]]);
  (* formatPosition / guessCartesianFlag parseSphericalPosition parseCartesianPosition *)
  ([[102; 111; 114; 109; 97; 116; 80; 111; 115; 105; 116; 105; 111; 110]], [[103; 117; 101; 115; 115; 67; 97; 114; 116; 101; 115; 105; 97; 110; 70; 108; 97; 103]; [112; 97; 114; 115; 101; 83; 112; 104; 101; 114; 105; 99; 97; 108; 80; 111; 115; 105; 116; 105; 111; 110]; [112; 97; 114; 115; 101; 67; 97; 114; 116; 101; 115; 105; 97; 110; 80; 111; 115; 105; 116; 105; 111; 110]]);
  (* formatSphericalSpeakerPosition formatCartesianSpeakerPosition / parseSpeakerPosition parseSphericalSpeakerPosition parseCartesianSpeakerPosition *)
  ([[102; 111; 114; 109; 97; 116; 83; 112; 104; 101; 114; 105; 99; 97; 108; 83; 112; 101; 97; 107; 101; 114; 80; 111; 115; 105; 116; 105; 111; 110]; [102; 111; 114; 109; 97; 116; 67; 97; 114; 116; 101; 115; 105; 97; 110; 83; 112; 101; 97; 107; 101; 114; 80; 111; 115; 105; 116; 105; 111; 110]], [[112; 97; 114; 115; 101; 83; 112; 101; 97; 107; 101; 114; 80; 111; 115; 105; 116; 105; 111; 110]; [112; 97; 114; 115; 101; 83; 112; 104; 101; 114; 105; 99; 97; 108; 83; 112; 101; 97; 107; 101; 114; 80; 111; 115; 105; 116; 105; 111; 110]; [112; 97; 114; 115; 101; 67; 97; 114; 116; 101; 115; 105; 97; 110; 83; 112; 101; 97; 107; 101; 114; 80; 111; 115; 105; 116; 105; 111; 110]]);
  (* formatPositionOffset / guessCartesianFlag parseSphericalPositionOffset parseCartesianPositionOffset *)
  ([[102; 111; 114; 109; 97; 116; 80; 111; 115; 105; 116; 105; 111; 110; 79; 102; 102; 115; 101; 116]], [[103; 117; 101; 115; 115; 67; 97; 114; 116; 101; 115; 105; 97; 110; 70; 108; 97; 103]; [112; 97; 114; 115; 101; 83; 112; 104; 101; 114; 105; 99; 97; 108; 80; 111; 115; 105; 116; 105; 111; 110; 79; 102; 102; 115; 101; 116]; [112; 97; 114; 115; 101; 67; 97; 114; 116; 101; 115; 105; 97; 110; 80; 111; 115; 105; 116; 105; 111; 110; 79; 102; 102; 115; 101; 116]]);
  (* formatFrequency / parseFrequency *)
  ([[102; 111; 114; 109; 97; 116; 70; 114; 101; 113; 117; 101; 110; 99; 121]], [[112; 97; 114; 115; 101; 70; 114; 101; 113; 117; 101; 110; 99; 121]]);
  (* formatGainInteractionRange / parseGainInteractionRange *)
  ([[102; 111; 114; 109; 97; 116; 71; 97; 105; 110; 73; 110; 116; 101; 114; 97; 99; 116; 105; 111; 110; 82; 97; 110; 103; 101]], [[112; 97; 114; 115; 101; 71; 97; 105; 110; 73; 110; 116; 101; 114; 97; 99; 116; 105; 111; 110; 82; 97; 110; 103; 101]]);
  (* formatPositionInteractionRange / parsePositionInteractionRange *)
  ([[102; 111; 114; 109; 97; 116; 80; 111; 115; 105; 116; 105; 111; 110; 73; 110; 116; 101; 114; 97; 99; 116; 105; 111; 110; 82; 97; 110; 103; 101]], [[112; 97; 114; 115; 101; 80; 111; 115; 105; 116; 105; 111; 110; 73; 110; 116; 101; 114; 97; 99; 116; 105; 111; 110; 82; 97; 110; 103; 101]]);
  (* formatLabel / parseLabel *)
  ([[102; 111; 114; 109; 97; 116; 76; 97; 98; 101; 108]], [[112; 97; 114; 115; 101; 76; 97; 98; 101; 108]]);
  (* formatNonDialogueContentKind formatDialogueContentKind formatMixedContentKind / parseContentKind *)
  ([[102; 111; 114; 109; 97; 116; 78; 111; 110; 68; 105; 97; 108; 111; 103; 117; 101; 67; 111; 110; 116; 101; 110; 116; 75; 105; 110; 100]; [102; 111; 114; 109; 97; 116; 68; 105; 97; 108; 111; 103; 117; 101; 67; 111; 110; 116; 101; 110; 116; 75; 105; 110; 100]; [102; 111; 114; 109; 97; 116; 77; 105; 120; 101; 100; 67; 111; 110; 116; 101; 110; 116; 75; 105; 110; 100]], [[112; 97; 114; 115; 101; 67; 111; 110; 116; 101; 110; 116; 75; 105; 110; 100]]);
  (* formatProfileList formatProfile / parseProfileList parseProfile *)
  ([[102; 111; 114; 109; 97; 116; 80; 114; 111; 102; 105; 108; 101; 76; 105; 115; 116]; [102; 111; 114; 109; 97; 116; 80; 114; 111; 102; 105; 108; 101]], [[112; 97; 114; 115; 101; 80; 114; 111; 102; 105; 108; 101; 76; 105; 115; 116]; [112; 97; 114; 115; 101; 80; 114; 111; 102; 105; 108; 101]]);
  (* formatChangedIds formatIdRef / parseChangedIds parseIdRef addIdReferences *)
  ([[102; 111; 114; 109; 97; 116; 67; 104; 97; 110; 103; 101; 100; 73; 100; 115]; [102; 111; 114; 109; 97; 116; 73; 100; 82; 101; 102]], [[112; 97; 114; 115; 101; 67; 104; 97; 110; 103; 101; 100; 73; 100; 115]; [112; 97; 114; 115; 101; 73; 100; 82; 101; 102]; [97; 100; 100; 73; 100; 82; 101; 102; 101; 114; 101; 110; 99; 101; 115]]);
  (* formatFrameHeader / parseFrameHeader *)
  ([[102; 111; 114; 109; 97; 116; 70; 114; 97; 109; 101; 72; 101; 97; 100; 101; 114]], [[112; 97; 114; 115; 101; 70; 114; 97; 109; 101; 72; 101; 97; 100; 101; 114]])
].

Definition custom_names : list (list N) := [[97; 117; 100; 105; 111; 66; 108; 111; 99; 107; 70; 111; 114; 109; 97; 116]; [99; 104; 97; 110; 103; 101; 100; 73; 68; 115]; [97; 117; 100; 105; 111; 84; 114; 97; 99; 107; 70; 111; 114; 109; 97; 116; 73; 68; 82; 101; 102]; [97; 117; 100; 105; 111; 80; 114; 111; 103; 114; 97; 109; 109; 101; 82; 101; 102; 101; 114; 101; 110; 99; 101; 83; 99; 114; 101; 101; 110]].

Definition is_custom (n : list N) : bool := existsb (str_eqb n) custom_names.

Fixpoint assoc_all {A} (ks : list (list N)) (l : list (list N * list A)) : option (list A) :=
  match ks with
  | [] => Some []
  | k :: ks' => match assoc_tab k l, assoc_all ks' l with Some a, Some b => Some (a ++ b) | _, _ => None end
  end.

Definition pair_tables (p : list (list N) * list (list N)) : option (list wrow * list prow) :=
  match assoc_all (fst p) writer_tables, assoc_all (snd p) parser_tables with
  | Some w, Some r => Some (filter (fun x => negb (is_custom (wname x))) w, filter (fun x => negb (is_custom (pname x))) r)
  | _, _ => None
  end.

Definition all_pairs_present : bool := forallb (fun p => match pair_tables p with Some _ => true | None => false end) pairs.
Definition all_w_p_compatible : bool :=
  forallb (fun p => match pair_tables p with Some (w, r) => w_p_compatible w r | None => false end) pairs.
Definition all_p_w_covered : bool :=
  forallb (fun p => match pair_tables p with Some (w, r) => p_w_covered r w | None => false end) pairs.

Definition all_lit_values_read : bool :=
  forallb (fun p => match pair_tables p with Some (w, r) => lit_values_read w r | None => false end) pairs.
Definition unread_literals : list (list (list N) * wrow) :=
  flat_map (fun p => match pair_tables p with
                     | Some (w, r) => map (fun x => (fst p, x)) (filter (fun x => negb (lit_read r x)) w)
                     | None => [] end) pairs.

(* the rows that fail, for reporting *)
Definition unmatched_writer_rows : list (list (list N) * wrow) :=
  flat_map (fun p => match pair_tables p with
                     | Some (w, r) => map (fun x => (fst p, x)) (filter (fun x => negb (w_matched r x)) w)
                     | None => [] end) pairs.
Definition unmatched_parser_rows : list (list (list N) * prow) :=
  flat_map (fun p => match pair_tables p with
                     | Some (w, r) => map (fun x => (snd p, x)) (filter (fun x => negb (p_matched w x)) r)
                     | None => [] end) pairs.
