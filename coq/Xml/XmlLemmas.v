(* Xml/XmlLemmas.v - facts about the generated writer / parser tables (by computation) and their meaning
   (through the soundness lemmas of the checkers). *)
From Adm Require Import Xml.Tables Xml.Compat Xml.Generic Xml.GenericProofs Xml.Pairs Xml.Regular gen.XmlTabGen.
Local Open Scope N_scope.

Lemma xml_tables_recognised : xml_problems = [].
Proof. vm_compute. reflexivity. Qed.
Lemma xml_pairs_present : all_pairs_present = true.
Proof. vm_compute. reflexivity. Qed.
Lemma xml_w_p_compatible : all_w_p_compatible = true.
Proof. vm_compute. reflexivity. Qed.
Lemma xml_p_w_covered : all_p_w_covered = true.
Proof. vm_compute. reflexivity. Qed.
Lemma xml_lit_values_read : all_lit_values_read = true.
Proof. vm_compute. reflexivity. Qed.
Lemma xml_regular_compatible : all_regular_compatible = true.
Proof. vm_compute. reflexivity. Qed.

Lemma p_w_covered_spec pt wt : p_w_covered pt wt = true ->
  forall p, In p pt -> pclass (pk p) <> COther -> literal_name (pname p) = true ->
  exists w, In w wt /\ wclass (wk w) = pclass (pk p) /\ str_eqb (wname w) (pname p) = true /\ param_agrees (wparam w) (pparam p) = true.
Proof.
  unfold p_w_covered. rewrite forallb_forall. intros H p Hp Hc Hl. specialize (H p Hp).
  unfold p_matched in H. rewrite Hl in H. simpl in H.
  destruct (pclass (pk p)) eqn:Ec; try congruence;
    (apply existsb_exists in H; destruct H as (w & Hw & H); rewrite !andb_true_iff in H; destruct H as [[H1 H2] H3];
     exists w; repeat split; auto; destruct (wclass (wk w)); simpl in H1; congruence).
Qed.

(* every attribute, sub-element and reference element a format function emits under a literal name is looked
   for, under that name and in that syntactic class, by the parse function(s) it is paired with *)
Lemma emitted_names_are_read : forall p w r, In p pairs -> pair_tables p = Some (w, r) ->
  forall x, In x w -> wclass (wk x) <> COther -> literal_name (wname x) = true ->
  exists y, In y r /\ pclass (pk y) = wclass (wk x) /\ pname y = wname x /\ param_agrees (wparam x) (pparam y) = true.
Proof.
  intros p w r Hp Ht. pose proof xml_w_p_compatible as H. unfold all_w_p_compatible in H.
  rewrite forallb_forall in H. specialize (H p Hp). rewrite Ht in H. apply w_p_compatible_spec. exact H.
Qed.

(* conversely, whatever a parse function looks for is emitted by the format function(s) it is paired with *)
Lemma read_names_are_emitted : forall p w r, In p pairs -> pair_tables p = Some (w, r) ->
  forall y, In y r -> pclass (pk y) <> COther -> literal_name (pname y) = true ->
  exists x, In x w /\ wclass (wk x) = pclass (pk y) /\ str_eqb (wname x) (pname y) = true /\ param_agrees (wparam x) (pparam y) = true.
Proof.
  intros p w r Hp Ht. pose proof xml_p_w_covered as H. unfold all_p_w_covered in H.
  rewrite forallb_forall in H. specialize (H p Hp). rewrite Ht in H. apply p_w_covered_spec. exact H.
Qed.

Lemma literal_values_are_read : forall p w r, In p pairs -> pair_tables p = Some (w, r) ->
  forall x, In x w -> wk x = WLitAttr -> wcustom x <> [] ->
  exists y, In y r /\ pk y = PLit /\ str_eqb (pname y) (wcustom x) = true.
Proof.
  intros p w r Hp Ht. pose proof xml_lit_values_read as H. unfold all_lit_values_read in H.
  rewrite forallb_forall in H. specialize (H p Hp). rewrite Ht in H. apply lit_values_read_spec. exact H.
Qed.

(* the regular rows of every pair round-trip through the table-driven writer and reader *)
Lemma regular_rows_roundtrip : forall p W P, In p pairs -> pair_regular p = Some (W, P) ->
  forall v, attr_single W v ->
  (forall r, In r W -> parse P (write W v) (g_param r) = v (g_param r)) /\ write W (parse P (write W v)) = write W v.
Proof.
  intros p W P Hp Ht v Hs. pose proof xml_regular_compatible as H. unfold all_regular_compatible in H.
  rewrite forallb_forall in H. specialize (H p Hp). rewrite Ht in H. split.
  - apply generic_readback; auto.
  - apply generic_rewrite; auto.
Qed.

(* non-vacuity: the pairs exist, and the regular fragment is most of the attribute / text rows *)
Lemma regular_rows_nonvacuous : (length pairs >= 25)%nat /\ (regular_rows >= 60)%nat /\
  forall p, In p pairs -> exists W P, pair_regular p = Some (W, P).
Proof.
  split; [vm_compute; repeat constructor|]. split; [vm_compute; repeat constructor|].
  intros p Hp. pose proof xml_pairs_present as H. unfold all_pairs_present in H. rewrite forallb_forall in H.
  specialize (H p Hp). unfold pair_regular. destruct (pair_tables p) as [[w r]|]; [eauto|discriminate].
Qed.
