(* Xml/Frames.v - C19: the time reference rule of SADM frames as a small model of detail::addBlockTimeParameters
   (formatter) and addTimeParametersToBlock (parser): block times are written as rtime/duration under a total time
   reference and as lstart/lduration under a local one; the parser, given the header's time reference, rejects the
   attributes of the other one; with permit_time_reference_mismatch (no reference passed down) it accepts both. *)
From Adm Require Import Base.Util Xml.Tables Xml.Compat Xml.GenericProofs Xml.Pairs gen.XmlTabGen.
Local Open Scope N_scope.

Inductive tref := Total | Local.
Definition other (t : tref) : tref := match t with Total => Local | Local => Total end.
Inductive tattr := ARtime | ADuration | ALstart | ALduration.
(* a block's times as written: optional start and optional duration, already rendered *)
Record btimes := mkBT { bt_start : option (list N); bt_dur : option (list N) }.

Definition opt_attr (a : tattr) (v : option (list N)) : list (tattr * list N) :=
  match v with Some t => [(a, t)] | None => [] end.
Definition write_times (tr : tref) (b : btimes) : list (tattr * list N) :=
  match tr with
  | Total => opt_attr ARtime (bt_start b) ++ opt_attr ADuration (bt_dur b)
  | Local => opt_attr ALstart (bt_start b) ++ opt_attr ALduration (bt_dur b)
  end.

Definition tattr_eqb (a b : tattr) : bool :=
  match a, b with ARtime, ARtime | ADuration, ADuration | ALstart, ALstart | ALduration, ALduration => true | _, _ => false end.
Definition lookup (a : tattr) (l : list (tattr * list N)) : option (list N) :=
  match find (fun x => tattr_eqb (fst x) a) l with Some x => Some (snd x) | None => None end.
(* which reference an attribute belongs to *)
Definition attr_ref (a : tattr) : tref := match a with ARtime | ADuration => Total | ALstart | ALduration => Local end.
Definition tref_eqb (a b : tref) : bool := match a, b with Total, Total | Local, Local => true | _, _ => false end.
(* setOptionalAttribute with the checking lambda: an attribute that is present and belongs to the other reference throws *)
Definition read_attr (hdr : option tref) (a : tattr) (l : list (tattr * list N)) : option (option (list N)) :=
  match lookup a l with
  | None => Some None
  | Some t => match hdr with
              | Some tr => if tref_eqb tr (attr_ref a) then Some (Some t) else None
              | None => Some (Some t)
              end
  end.
Definition pick (a b : option (list N)) : option (list N) := match b with Some _ => b | None => a end.
(* the four attributes in the order of the parser; a later one overwrites an earlier one *)
Definition read_times (hdr : option tref) (l : list (tattr * list N)) : option btimes :=
  match read_attr hdr ARtime l, read_attr hdr ADuration l, read_attr hdr ALstart l, read_attr hdr ALduration l with
  | Some r, Some d, Some ls, Some ld => Some (mkBT (pick r ls) (pick d ld))
  | _, _, _, _ => None
  end.

Lemma read_write_same tr b : read_times (Some tr) (write_times tr b) = Some b.
Proof. destruct tr, b as [[s|] [d|]]; reflexivity. Qed.
Lemma read_write_permitted tr b : read_times None (write_times tr b) = Some b.
Proof. destruct tr, b as [[s|] [d|]]; reflexivity. Qed.
Lemma read_write_mismatch tr b : bt_start b <> None \/ bt_dur b <> None ->
  read_times (Some (other tr)) (write_times tr b) = None.
Proof. destruct tr, b as [[s|] [d|]]; simpl; intros [H | H]; try congruence; reflexivity. Qed.
Lemma read_write_untimed tr tr' : read_times (Some tr') (write_times tr (mkBT None None)) = Some (mkBT None None).
Proof. destruct tr, tr'; reflexivity. Qed.
Lemma write_times_names tr b a t : In (a, t) (write_times tr b) -> attr_ref a = tr.
Proof.
  destruct tr, b as [[s|] [d|]]; simpl; intros H;
    repeat match goal with
           | H : _ \/ _ |- _ => destruct H
           | H : (_, _) = (_, _) |- _ => inversion H; subst; clear H
           | H : False |- _ => contradiction
           end; reflexivity.
Qed.

(* the tie: every block format pair writes and reads exactly these four attributes (closure of the helper calls) *)
Definition four : list (list N) := [[114; 116; 105; 109; 101]; [100; 117; 114; 97; 116; 105; 111; 110]; [108; 115; 116; 97; 114; 116]; [108; 100; 117; 114; 97; 116; 105; 111; 110]].
Definition block_pair (p : list (list N) * list (list N)) : bool :=
  match fst p with [f] => is_prefix [102; 111; 114; 109; 97; 116; 66; 108; 111; 99; 107; 70; 111; 114; 109; 97; 116] f | _ => false end.
Definition time_rows_present : bool :=
  forallb (fun p => negb (block_pair p) ||
     match pair_tables p with
     | Some (w, r) => forallb (fun n => existsb (fun x => str_eqb (wname x) n) w && existsb (fun y => str_eqb (pname y) n) r) four
     | None => false end) pairs
  && (4 <=? N.of_nat (length (filter block_pair pairs))).
Lemma time_rows_present_ok : time_rows_present = true.
Proof. vm_compute. reflexivity. Qed.

Lemma header_pairs_checked :
  existsb (fun p => list_eqb str_eqb (fst p) [[102; 111; 114; 109; 97; 116; 70; 114; 97; 109; 101; 70; 111; 114; 109; 97; 116]]) pairs = true /\
  existsb (fun p => list_eqb str_eqb (fst p) [[102; 111; 114; 109; 97; 116; 84; 114; 97; 110; 115; 112; 111; 114; 116; 84; 114; 97; 99; 107; 70; 111; 114; 109; 97; 116]]) pairs = true /\
  existsb (fun p => list_eqb str_eqb (fst p) [[102; 111; 114; 109; 97; 116; 70; 114; 97; 109; 101; 72; 101; 97; 100; 101; 114]]) pairs = true.
Proof. vm_compute. auto. Qed.
