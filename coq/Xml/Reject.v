(* Xml/Reject.v - C08: the two phases of DocumentParser::parse() as list programs (elements are added unless their
   ID is already in the ID map; every pending reference is looked up and a miss throws), what they reject, and the
   checkers that tie this shape to the regenerated tables: every dispatched element parser has the duplicate check,
   every pending reference table is resolved, every resolver throws on a miss. *)
From Adm Require Import Xml.Tables Xml.Compat Xml.GenericProofs Xml.Pairs gen.XmlTabGen.
Local Open Scope N_scope.

(* ---------- phase 1: one kind's elements in file order; IDs as texts ---------- *)
Fixpoint add_all (seen : list (list N)) (els : list (list N)) : option (list (list N)) :=
  match els with
  | [] => Some seen
  | e :: r => if existsb (str_eqb e) seen then None (* XmlParsingDuplicateId *) else add_all (e :: seen) r
  end.

Lemma existsb_str_In e l : existsb (str_eqb e) l = true <-> In e l.
Proof.
  rewrite existsb_exists. split.
  - intros (x & Hx & E). apply str_eqb_true in E. subst. exact Hx.
  - intros H. exists e. split; auto. apply str_eqb_refl.
Qed.

Lemma add_all_some seen els s : add_all seen els = Some s ->
  NoDup els /\ (forall e, In e els -> ~ In e seen) /\ (forall e, In e s <-> In e seen \/ In e els).
Proof.
  revert seen. induction els as [|e r IH]; intros seen H; simpl in H.
  - inversion H; subst. split; [constructor|]. split; [intros e []|]. intros e. simpl. tauto.
  - destruct (existsb (str_eqb e) seen) eqn:E; [discriminate|].
    apply IH in H. destruct H as (Hnd & Hdis & Hs).
    assert (Hne : ~ In e seen). { intros Hin. apply existsb_str_In in Hin. congruence. }
    split; [|split].
    + constructor; auto. intros Hin. apply (Hdis e Hin). left. reflexivity.
    + intros x [-> | Hx]; auto. intros Hin. apply (Hdis x Hx). right. exact Hin.
    + intros x. rewrite Hs. simpl. intuition.
Qed.

(* a file in which two elements of one kind carry the same ID is rejected *)
Lemma duplicate_ids_rejected els : ~ NoDup els -> add_all [] els = None.
Proof.
  intros H. destruct (add_all [] els) as [s|] eqn:E; auto. apply add_all_some in E. tauto.
Qed.
Lemma distinct_ids_accepted els : NoDup els -> exists s, add_all [] els = Some s /\ forall e, In e s <-> In e els.
Proof.
  assert (G : forall els seen, NoDup els -> (forall e, In e els -> ~ In e seen) -> exists s, add_all seen els = Some s).
  { induction els0 as [|e r IH]; intros seen Hnd Hdis; simpl; [eauto|].
    destruct (existsb (str_eqb e) seen) eqn:E.
    - apply existsb_str_In in E. exfalso. apply (Hdis e); auto. left; auto.
    - inversion Hnd; subst. apply IH; auto. intros x Hx [-> | Hin]; auto. apply (Hdis x); auto. right; auto. }
  intros Hnd. destruct (G els [] Hnd) as [s Hs]; [intros e _ []|].
  exists s. split; auto. apply add_all_some in Hs. destruct Hs as (_ & _ & Hs). intros e. rewrite Hs. simpl. tauto.
Qed.

(* ---------- phase 2: resolution of the pending references against the ID map ---------- *)
Fixpoint resolve_all (idmap : list (list N)) (refs : list (list N)) : bool :=
  match refs with
  | [] => true
  | r :: rest => if existsb (str_eqb r) idmap then resolve_all idmap rest else false (* XmlParsingUnresolvedReference *)
  end.
Lemma resolve_all_spec idmap refs : resolve_all idmap refs = true <-> forall r, In r refs -> In r idmap.
Proof.
  induction refs as [|r rest IH]; simpl.
  - split; auto. intros _ r [].
  - destruct (existsb (str_eqb r) idmap) eqn:E.
    + apply existsb_str_In in E. rewrite IH. split.
      * intros H x [-> | Hx]; auto.
      * intros H x Hx. apply H. right. exact Hx.
    + split; [discriminate|]. intros H. assert (In r idmap) by (apply H; left; reflexivity).
      apply existsb_str_In in H0. congruence.
Qed.
(* a reference that names no element makes the file rejected, wherever it stands in its table *)
Lemma dangling_reference_rejected idmap refs r : In r refs -> ~ In r idmap -> resolve_all idmap refs = false.
Proof.
  intros Hr Hn. destruct (resolve_all idmap refs) eqn:E; auto. rewrite resolve_all_spec in E. exfalso. auto.
Qed.

(* ---------- the tie: the regenerated tables have this shape ---------- *)
Definition is_dupcheck (r : prow) : bool := match pk r with PDupCheck => true | _ => false end.
Definition is_idattr (r : prow) : bool := match pk r with PAttrReq => is_suffix [73; 68] (pname r) (* "ID" *) | _ => false end.
(* every element parser dispatched by parse(): a mandatory ...ID attribute, then the duplicate check *)
Definition is_dupthrow (r : prow) : bool :=
  match pk r with PCheck => str_eqb (pname r) [88; 109; 108; 80; 97; 114; 115; 105; 110; 103; 68; 117; 112; 108; 105; 99; 97; 116; 101; 73; 100] | _ => false end.
(* ... `if (idMap_.contains(id)) throw XmlParsingDuplicateId` directly after the ID has been read *)
Fixpoint id_then_dupcheck (rows : list prow) : bool :=
  match rows with
  | [] => false
  | r :: rest => if is_idattr r then match rest with c :: t :: _ => is_dupcheck c && is_dupthrow t | _ => false end
                 else id_then_dupcheck rest
  end.
Definition dupchecks_complete : bool :=
  (8 <=? N.of_nat (length dispatched_parsers)) &&
  forallb (fun f => match assoc_tab f parser_tables with Some rows => id_then_dupcheck rows | None => false end) dispatched_parsers.
Definition tab_of (t : list N * list N * list N) : list N := snd t.
Definition all_tables_resolved : bool :=
  forallb (fun t => existsb (str_eqb (tab_of t)) resolved_tables) pending_tables.
Fixpoint nodup_str (l : list (list N)) : list (list N) :=
  match l with [] => [] | x :: r => if existsb (str_eqb x) r then nodup_str r else x :: nodup_str r end.
Definition fifteen_reference_tables : bool := N.of_nat (length (nodup_str (map tab_of pending_tables))) =? 15.
Definition resolvers_throw : bool := negb (Nat.eqb (length resolvers) 0) && forallb snd resolvers.
(* the parse function that fills a pending table is one the dispatcher calls (directly or through its closure) *)
Definition fillers_dispatched : bool :=
  forallb (fun t => existsb (fun f => match assoc_tab f parser_tables with
                                      | Some rows => existsb (fun r => match pk r with PRefs | PRef => str_eqb (pname r) (snd (fst t)) | _ => false end) rows
                                      | None => false end) dispatched_parsers) pending_tables.

Lemma reject_tables_ok : dupchecks_complete = true /\ all_tables_resolved = true /\ fifteen_reference_tables = true
  /\ resolvers_throw = true /\ fillers_dispatched = true.
Proof. vm_compute. repeat split. Qed.

Lemma all_tables_resolved_spec : all_tables_resolved = true ->
  forall f n t, In (f, n, t) pending_tables -> exists t', In t' resolved_tables /\ str_eqb t t' = true.
Proof.
  unfold all_tables_resolved. rewrite forallb_forall. intros H f n t Hin. specialize (H _ Hin).
  apply existsb_exists in H. exact H.
Qed.
