(* Xml/Generic.v - the table-driven writer and reader for the *regular* rows of a format / parse function:
   a parameter written as one attribute (XmlNode::addAttribute / addOptionalAttribute) or as text
   sub-elements (addElement / addOptionalElement), read back by name (first_attribute(name) /
   findElements(name)).  Values are the already rendered texts; the value codecs are the subject of
   C10 / C15 and of the differential run. *)
From Adm Require Export Base.Util.
Local Open Scope N_scope.

Inductive cls := KA | KE.
Definition cls_eqb (a b : cls) : bool := match a, b with KA, KA | KE, KE => true | _, _ => false end.

Record grow := mkG { g_cls : cls; g_param : list N; g_name : list N }.
Definition grow_eqb (a b : grow) : bool :=
  cls_eqb (g_cls a) (g_cls b) && str_eqb (g_param a) (g_param b) && str_eqb (g_name a) (g_name b).

(* an element restricted to what the regular rows see: its attributes and its text sub-elements, in order *)
Record xel := mkX { x_attrs : list (list N * list N); x_kids : list (list N * list N) }.

(* parameter -> rendered values ([] = not emitted: unset, or a default that is discarded) *)
Definition vals := list N -> list (list N).

Definition attrs_of (v : vals) (r : grow) : list (list N * list N) :=
  match g_cls r with
  | KA => match v (g_param r) with [] => [] | t :: _ => [(g_name r, t)] end
  | KE => []
  end.
Definition kids_of (v : vals) (r : grow) : list (list N * list N) :=
  match g_cls r with
  | KA => []
  | KE => map (fun t => (g_name r, t)) (v (g_param r))
  end.
Definition write (W : list grow) (v : vals) : xel :=
  mkX (flat_map (attrs_of v) W) (flat_map (kids_of v) W).

Definition read_row (x : xel) (r : grow) : list (list N) :=
  match g_cls r with
  | KA => match find (fun a => str_eqb (fst a) (g_name r)) (x_attrs x) with Some a => [snd a] | None => [] end
  | KE => map snd (filter (fun k => str_eqb (fst k) (g_name r)) (x_kids x))
  end.
Definition parse (P : list grow) (x : xel) : vals :=
  fun p => match find (fun r => str_eqb (g_param r) p) P with Some r => read_row x r | None => [] end.

(* ---------- the checker ---------- *)
Definition key_eqb (a b : grow) : bool := cls_eqb (g_cls a) (g_cls b) && str_eqb (g_name a) (g_name b).
Fixpoint keys_unique (W : list grow) : bool :=
  match W with [] => true | r :: W' => negb (existsb (key_eqb r) W') && keys_unique W' end.
Fixpoint params_unique (W : list grow) : bool :=
  match W with [] => true | r :: W' => negb (existsb (fun r' => str_eqb (g_param r) (g_param r')) W') && params_unique W' end.
Definition generic_compatible (W P : list grow) : bool :=
  keys_unique W && params_unique W && params_unique P && forallb (fun r => existsb (grow_eqb r) P) W.

(* attributes carry one value *)
Definition attr_single (W : list grow) (v : vals) : Prop :=
  forall r, In r W -> g_cls r = KA -> (length (v (g_param r)) <= 1)%nat.
