(* Xml/Regular.v - the regular fragment of the generated writer / parser tables as tables of Xml/Generic.v. *)
From Adm Require Import Xml.Tables Xml.Compat Xml.Generic Xml.GenericProofs Xml.Pairs gen.XmlTabGen.
Local Open Scope N_scope.

Definition pcustom (r : prow) : list N := snd r.
Definition is_nil {A} (l : list A) : bool := match l with [] => true | _ => false end.

(* a writer row that is one attribute (any value formatter) or plain text sub-elements (no node callback) *)
Definition simple_w (r : wrow) : option grow :=
  if literal_name (wname r) && negb (is_nil (wparam r)) then
    match wk r with
    | WAttr | WOptAttr => Some (mkG KA (wparam r) (wname r))
    | WElem | WOptElem => if is_nil (wcustom r) then Some (mkG KE (wparam r) (wname r)) else None
    | _ => None
    end
  else None.
Definition simple_p (r : prow) : option grow :=
  if literal_name (pname r) && negb (is_nil (pparam r)) then
    match pk r with
    | PAttrReq | PAttrOpt => Some (mkG KA (pparam r) (pname r))
    | PElemOpt | PElemReq => if is_nil (pcustom r) then Some (mkG KE (pparam r) (pname r)) else None
    | _ => None
    end
  else None.

(* ... whose XML name (within its class) and whose parameter occur in no other row of the function *)
Definition wkey_count (W : list wrow) (c : xclass) (n : list N) : nat :=
  length (filter (fun r => xclass_eqb (wclass (wk r)) c && str_eqb (wname r) n) W).
Definition is_some {A} (o : option A) : bool := match o with Some _ => true | None => false end.
Definition wparam_count (W : list wrow) (p : list N) : nat := length (filter (fun r => is_some (simple_w r) && str_eqb (wparam r) p) W).
Definition pkey_count (P : list prow) (c : xclass) (n : list N) : nat :=
  length (filter (fun r => xclass_eqb (pclass (pk r)) c && str_eqb (pname r) n) P).
Definition pparam_count (P : list prow) (p : list N) : nat := length (filter (fun r => is_some (simple_p r) && str_eqb (pparam r) p) P).

Definition regW (W : list wrow) : list grow :=
  flat_map (fun r => match simple_w r with
                     | Some g => if Nat.eqb (wkey_count W (wclass (wk r)) (wname r)) 1 && Nat.eqb (wparam_count W (wparam r)) 1 then [g] else []
                     | None => [] end) W.
Definition regP (P : list prow) : list grow :=
  flat_map (fun r => match simple_p r with
                     | Some g => if Nat.eqb (pkey_count P (pclass (pk r)) (pname r)) 1 && Nat.eqb (pparam_count P (pparam r)) 1 then [g] else []
                     | None => [] end) P.

Definition pair_regular (p : list (list N) * list (list N)) : option (list grow * list grow) :=
  match pair_tables p with Some (w, r) => Some (regW w, regP r) | None => None end.

Definition all_regular_compatible : bool :=
  forallb (fun p => match pair_regular p with Some (w, r) => generic_compatible w r | None => false end) pairs.
Definition regular_rows : nat :=
  fold_right (fun p n => match pair_regular p with Some (w, _) => (length w + n)%nat | None => n end) 0%nat pairs.
Definition regular_unmatched : list (list (list N) * grow) :=
  flat_map (fun p => match pair_regular p with
                     | Some (w, r) => map (fun g => (fst p, g)) (filter (fun g => negb (existsb (grow_eqb g) r)) w)
                     | None => [] end) pairs.
