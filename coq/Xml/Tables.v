(* Xml/Tables.v - row types of the writer and parser tables regenerated from the XML code. *)
From Adm Require Export Base.Util.

Inductive wkind := WAttr | WOptAttr | WElem | WOptElem | WMulti | WOptMulti | WElems | WVector | WBase
                 | WRef | WOptRef | WRefs | WLitAttr | WLitElem | WValue | WCustom.
Inductive pkind := PAttrReq | PAttrOpt | PElemOpt | PElemReq | PMultiOpt | PMultiReq | PElems | PRefs | PRef
                 | PDupCheck | PCheck | PValue | PCustom | PLit.

(* (kind, parameter type, XML name, custom formatter / parser function) *)
Definition wrow := (wkind * list N * list N * list N)%type.
Definition prow := (pkind * list N * list N * list N)%type.
