(* Xml/Layout.v - C13: (1) the checker on the regenerated container inventory: no container keyed by a pointer is
   iterated, and no owner-based pointer order is used; (2) a model of xml::detail::PendingReferences (a vector of
   entries plus an index used for lookup only): the iteration order is the order of first insertion, whatever order
   the keys have. *)
From Adm Require Import Base.Util gen.LayoutGen Xml.GenericProofs.
Local Open Scope N_scope.

Definition c_ptr (c : list N * list N * list N * list N * bool * bool * bool) : bool := snd (fst (fst c)).
Definition c_iterated (c : list N * list N * list N * list N * bool * bool * bool) : bool := snd c.
Definition no_pointer_order : bool :=
  forallb (fun c => negb (c_ptr c && c_iterated c)) containers &&
  match owner_order_uses with [] => true | _ => false end &&
  match layout_problems with [] => true | _ => false end.

Lemma no_pointer_order_ok : no_pointer_order = true.
Proof. vm_compute. reflexivity. Qed.

Lemma no_pointer_order_spec : no_pointer_order = true ->
  (forall c, In c containers -> c_ptr c = true -> c_iterated c = false) /\ owner_order_uses = [].
Proof.
  unfold no_pointer_order. rewrite !andb_true_iff. intros [[H1 H2] _]. split.
  - rewrite forallb_forall in H1. intros c Hc Hp. specialize (H1 c Hc). rewrite Hp in H1. simpl in H1.
    destruct (c_iterated c); [discriminate|reflexivity].
  - destruct owner_order_uses; [reflexivity|discriminate].
Qed.

(* ---------- PendingReferences<Key, Value>: keys are handles (positive numbers standing for addresses) ---------- *)
Section Pending.
Variable V : Type.
Variable dflt : V.
Definition pending := list (positive * V).      (* entries_, in insertion order; index_ only serves lookup *)

Fixpoint pr_update (p : pending) (k : positive) (f : V -> V) : option pending :=
  match p with
  | [] => None
  | (k', v) :: r => if Pos.eqb k k' then Some ((k', f v) :: r)
                    else match pr_update r k f with Some r' => Some ((k', v) :: r') | None => None end
  end.
(* operator[](key) followed by a modification of the value (push_back of a reference / assignment) *)
Definition pr_access (p : pending) (k : positive) (f : V -> V) : pending :=
  match pr_update p k f with Some p' => p' | None => p ++ [(k, f dflt)] end.

Fixpoint first_occurrences (seen : list positive) (ks : list positive) : list positive :=
  match ks with
  | [] => []
  | k :: r => if existsb (Pos.eqb k) seen then first_occurrences seen r else k :: first_occurrences (k :: seen) r
  end.

Lemma pr_update_keys p k f p' : pr_update p k f = Some p' -> map fst p' = map fst p.
Proof.
  revert p'. induction p as [|[k' v] r IH]; intros p' H; simpl in H; [discriminate|].
  destruct (Pos.eqb k k'); [inversion H; reflexivity|].
  destruct (pr_update r k f) eqn:E; [|discriminate]. inversion H; subst. simpl. f_equal. apply IH. reflexivity.
Qed.
Lemma pr_update_some_iff p k f : (exists p', pr_update p k f = Some p') <-> In k (map fst p).
Proof.
  induction p as [|[k' v] r IH]; simpl.
  - split; [intros [p' H]; discriminate|intros []].
  - destruct (Pos.eqb k k') eqn:E.
    + apply Pos.eqb_eq in E. subst. split; eauto.
    + apply Pos.eqb_neq in E. split.
      * intros [p' H]. destruct (pr_update r k f) eqn:E2; [|discriminate]. right. apply IH. eauto.
      * intros [H | H]; [congruence|]. apply IH in H. destruct H as [p' H]. rewrite H. eauto.
Qed.

Lemma existsb_pos_In k l : existsb (Pos.eqb k) l = true <-> In k l.
Proof.
  rewrite existsb_exists. split.
  - intros (x & Hx & E). apply Pos.eqb_eq in E. subst. exact Hx.
  - intros H. exists k. split; auto. apply Pos.eqb_refl.
Qed.

(* the keys of the table after a sequence of accesses: first occurrences, in the order of the accesses *)
Lemma pr_keys_order : forall (acc : list (positive * (V -> V))) (p : pending),
  map fst (fold_left (fun q a => pr_access q (fst a) (snd a)) acc p) =
  map fst p ++ first_occurrences (map fst p) (map fst acc).
Proof.
  induction acc as [|[k f] acc IH]; intros p; simpl; [rewrite app_nil_r; reflexivity|].
  rewrite IH. unfold pr_access. destruct (pr_update p k f) as [p'|] eqn:E.
  - rewrite (pr_update_keys _ _ _ _ E).
    assert (In k (map fst p)) by (apply (pr_update_some_iff p k f); eauto).
    apply existsb_pos_In in H. rewrite H. reflexivity.
  - assert (~ In k (map fst p)). { intros Hin. apply (pr_update_some_iff p k f) in Hin. destruct Hin as [p' Hp]. congruence. }
    destruct (existsb (Pos.eqb k) (map fst p)) eqn:E2; [apply existsb_pos_In in E2; contradiction|].
    rewrite map_app. simpl. rewrite <- app_assoc. simpl. f_equal. f_equal.
    (* membership in (map fst p ++ [k]) and in (k :: map fst p) agree *)
    assert (G : forall ks s1 s2, (forall x, In x s1 <-> In x s2) -> first_occurrences s1 ks = first_occurrences s2 ks).
    { induction ks as [|x ks IHk]; intros s1 s2 Hs; simpl; [reflexivity|].
      destruct (existsb (Pos.eqb x) s1) eqn:E1.
      - apply existsb_pos_In in E1. apply Hs in E1. apply existsb_pos_In in E1. rewrite E1. apply IHk. exact Hs.
      - destruct (existsb (Pos.eqb x) s2) eqn:E3.
        + apply existsb_pos_In in E3. apply Hs in E3. apply existsb_pos_In in E3. congruence.
        + f_equal. apply IHk. intros y. simpl. rewrite Hs. tauto. }
    apply G. intros x. rewrite in_app_iff. simpl. tauto.
Qed.

(* starting from the empty table: independent of any order on the keys (of any address layout) *)
Lemma pr_iteration_is_insertion_order : forall acc,
  map fst (fold_left (fun q a => pr_access q (fst a) (snd a)) acc []) = first_occurrences [] (map fst acc).
Proof. intros acc. rewrite pr_keys_order. reflexivity. Qed.
End Pending.

(* renaming the handles (another address layout) renames the iteration order and nothing else *)
Lemma first_occurrences_rename (f : positive -> positive) :
  (forall a b, f a = f b -> a = b) ->
  forall ks seen, first_occurrences (map f seen) (map f ks) = map f (first_occurrences seen ks).
Proof.
  intros Hinj. induction ks as [|k r IH]; intros seen; simpl; [reflexivity|].
  assert (E : existsb (Pos.eqb (f k)) (map f seen) = existsb (Pos.eqb k) seen).
  { induction seen as [|s seen IHs]; simpl; [reflexivity|]. rewrite IHs. f_equal.
    destruct (Pos.eqb k s) eqn:E1.
    - apply Pos.eqb_eq in E1. subst. apply Pos.eqb_refl.
    - apply Pos.eqb_neq in E1. apply Pos.eqb_neq. intros H. apply E1. apply Hinj. exact H. }
  rewrite E. destruct (existsb (Pos.eqb k) seen); [apply IH|]. simpl. f_equal. apply (IH (k :: seen)).
Qed.

Lemma inventory_nonvacuous : (length containers >= 20)%nat /\ existsb c_ptr containers = true.
Proof. split; [vm_compute; repeat constructor | vm_compute; reflexivity]. Qed.
