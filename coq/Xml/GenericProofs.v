(* Xml/GenericProofs.v - a compatible pair of regular tables round-trips. *)
From Adm Require Import Xml.Generic.
Local Open Scope N_scope.

Lemma str_eqb_true a b : str_eqb a b = true <-> a = b.
Proof.
  unfold str_eqb. revert b. induction a as [|x a IH]; intros [|y b]; simpl; split; intros H; try congruence; try discriminate.
  - apply andb_true_iff in H. destruct H as [H1 H2]. apply N.eqb_eq in H1. apply IH in H2. congruence.
  - inversion H; subst. rewrite N.eqb_refl. simpl. apply IH. reflexivity.
Qed.
Lemma str_eqb_refl a : str_eqb a a = true.
Proof. apply str_eqb_true. reflexivity. Qed.
Lemma str_eqb_false a b : str_eqb a b = false <-> a <> b.
Proof.
  split; intros H.
  - intros E. apply str_eqb_true in E. congruence.
  - destruct (str_eqb a b) eqn:E; auto. apply str_eqb_true in E. contradiction.
Qed.
Lemma cls_eqb_true a b : cls_eqb a b = true <-> a = b.
Proof. destruct a, b; simpl; split; intros; congruence. Qed.
Lemma grow_eqb_true a b : grow_eqb a b = true <-> a = b.
Proof.
  unfold grow_eqb. rewrite !andb_true_iff, cls_eqb_true, !str_eqb_true. destruct a, b; simpl. split.
  - intros [[-> ->] ->]. reflexivity.
  - intros E. inversion E. auto.
Qed.

Lemma filter_same (n : list N) (l : list (list N)) :
  map snd (filter (fun k : list N * list N => str_eqb (fst k) n) (map (fun t => (n, t)) l)) = l.
Proof. induction l as [|t ts IH]; [reflexivity|]. simpl. rewrite str_eqb_refl. simpl. rewrite IH. reflexivity. Qed.
Lemma filter_other (n m : list N) (l : list (list N)) : str_eqb m n = false ->
  filter (fun k : list N * list N => str_eqb (fst k) n) (map (fun t => (m, t)) l) = [].
Proof. intros H. induction l as [|t ts IH]; [reflexivity|]. simpl. rewrite H. exact IH. Qed.

Section RoundTrip.
Variable v : vals.

(* reading an attribute row from the attributes written by a table with unique keys *)
Lemma find_attr W r :
  keys_unique W = true -> In r W -> g_cls r = KA ->
  find (fun a => str_eqb (fst a) (g_name r)) (flat_map (attrs_of v) W) =
  match v (g_param r) with [] => None | t :: _ => Some (g_name r, t) end.
Proof.
  induction W as [|r0 W IH]; intros Hu Hin Hc; [contradiction|].
  simpl in Hu. apply andb_true_iff in Hu. destruct Hu as [Hn Hu]. apply negb_true_iff in Hn.
  simpl. destruct Hin as [-> | Hin].
  - unfold attrs_of at 1. rewrite Hc. destruct (v (g_param r)) as [|t ts] eqn:Ev.
    + simpl. (* nothing emitted by r; nothing else with this key *)
      assert (Hnone : forall W', existsb (key_eqb r) W' = false ->
                find (fun a => str_eqb (fst a) (g_name r)) (flat_map (attrs_of v) W') = None).
      { clear - Hc. induction W' as [|r1 W' IH']; intros He; [reflexivity|].
        simpl in He. apply orb_false_iff in He. destruct He as [H1 H2]. simpl.
        unfold attrs_of at 1. destruct (g_cls r1) eqn:E1; [|apply IH'; auto].
        destruct (v (g_param r1)); [apply IH'; auto|]. simpl.
        unfold key_eqb in H1. rewrite Hc, E1 in H1. simpl in H1.
        assert (str_eqb (g_name r1) (g_name r) = false).
        { apply str_eqb_false. apply str_eqb_false in H1. congruence. }
        rewrite H. apply IH'; auto. }
      apply Hnone; auto.
    + simpl. rewrite str_eqb_refl. reflexivity.
  - unfold attrs_of at 1. destruct (g_cls r0) eqn:E0; [|apply IH; auto].
    destruct (v (g_param r0)) as [|t ts]; [apply IH; auto|]. simpl.
    assert (str_eqb (g_name r0) (g_name r) = false).
    { apply str_eqb_false. intros E.
      assert (existsb (key_eqb r0) W = true); [|congruence].
      apply existsb_exists. exists r. split; auto. unfold key_eqb. rewrite E0, Hc. simpl. rewrite E. apply str_eqb_refl. }
    rewrite H. apply IH; auto.
Qed.

Lemma filter_kids W r :
  keys_unique W = true -> In r W -> g_cls r = KE ->
  map snd (filter (fun k => str_eqb (fst k) (g_name r)) (flat_map (kids_of v) W)) = v (g_param r).
Proof.
  assert (Hnone : forall W', existsb (key_eqb r) W' = false -> g_cls r = KE ->
            filter (fun k => str_eqb (fst k) (g_name r)) (flat_map (kids_of v) W') = []).
  { induction W' as [|r1 W' IH']; intros He Hc; [reflexivity|].
    simpl in He. apply orb_false_iff in He. destruct He as [H1 H2]. simpl. rewrite filter_app, IH', app_nil_r; auto.
    unfold kids_of. destruct (g_cls r1) eqn:E1; [reflexivity|].
    unfold key_eqb in H1. rewrite Hc, E1 in H1. simpl in H1.
    apply filter_other. apply str_eqb_false. apply str_eqb_false in H1. congruence. }
  induction W as [|r0 W IH]; intros Hu Hin Hc; [contradiction|].
  simpl in Hu. apply andb_true_iff in Hu. destruct Hu as [Hn Hu]. apply negb_true_iff in Hn.
  simpl. rewrite filter_app, map_app. destruct Hin as [-> | Hin].
  - rewrite Hnone, app_nil_r; auto. unfold kids_of. rewrite Hc. apply filter_same.
  - rewrite IH; auto.
    replace (filter _ (kids_of v r0)) with (@nil (list N * list N)); [reflexivity|].
    unfold kids_of. destruct (g_cls r0) eqn:E0; [reflexivity|].
    assert (str_eqb (g_name r0) (g_name r) = false).
    { apply str_eqb_false. intros E.
      assert (existsb (key_eqb r0) W = true); [|congruence].
      apply existsb_exists. exists r. split; auto. unfold key_eqb. rewrite E0, Hc. simpl. rewrite E. apply str_eqb_refl. }
    symmetry. apply filter_other. exact H.
Qed.

Lemma read_written W r :
  keys_unique W = true -> attr_single W v -> In r W -> read_row (write W v) r = v (g_param r).
Proof.
  intros Hu Hs Hin. unfold read_row, write. simpl. destruct (g_cls r) eqn:Hc.
  - rewrite find_attr; auto. specialize (Hs r Hin Hc).
    destruct (v (g_param r)) as [|t [|t2 ts]]; simpl in *; auto. exfalso. apply le_S_n in Hs. exact (Nat.nle_succ_0 _ Hs).
  - apply filter_kids; auto.
Qed.

Lemma find_param P r :
  params_unique P = true -> In r P -> find (fun r' => str_eqb (g_param r') (g_param r)) P = Some r.
Proof.
  induction P as [|r0 P IH]; intros Hu Hin; [contradiction|].
  simpl in Hu. apply andb_true_iff in Hu. destruct Hu as [Hn Hu]. apply negb_true_iff in Hn.
  simpl. destruct Hin as [-> | Hin]; [rewrite str_eqb_refl; reflexivity|].
  destruct (str_eqb (g_param r0) (g_param r)) eqn:E; [|apply IH; auto].
  exfalso. assert (existsb (fun r' => str_eqb (g_param r0) (g_param r')) P = true); [|congruence].
  apply existsb_exists. exists r. auto.
Qed.

(* (a) every parameter the writer table emits is read back with the same values, in the same order *)
Theorem generic_readback W P :
  generic_compatible W P = true -> attr_single W v ->
  forall r, In r W -> parse P (write W v) (g_param r) = v (g_param r).
Proof.
  unfold generic_compatible. rewrite !andb_true_iff. intros [[[Hk Hpw] Hpp] Hin] Hs r Hr.
  rewrite forallb_forall in Hin. specialize (Hin r Hr). apply existsb_exists in Hin.
  destruct Hin as (r' & Hr' & E). apply grow_eqb_true in E. subst r'.
  unfold parse. rewrite find_param; auto. apply read_written; auto.
Qed.
End RoundTrip.

(* the writer looks at a value map only through the parameters of its rows *)
Lemma write_ext W v1 v2 : (forall r, In r W -> v1 (g_param r) = v2 (g_param r)) -> write W v1 = write W v2.
Proof.
  intros H. unfold write. f_equal.
  - induction W as [|r W IH]; [reflexivity|]. simpl. rewrite IH; [|intros; apply H; right; auto].
    unfold attrs_of. rewrite (H r); [reflexivity|left; reflexivity].
  - induction W as [|r W IH]; [reflexivity|]. simpl. rewrite IH; [|intros; apply H; right; auto].
    unfold kids_of. rewrite (H r); [reflexivity|left; reflexivity].
Qed.

(* (b) writing what was read back from the written element gives the same element *)
Theorem generic_rewrite W P v :
  generic_compatible W P = true -> attr_single W v ->
  write W (parse P (write W v)) = write W v.
Proof.
  intros Hc Hs. apply write_ext. intros r Hr. apply generic_readback; auto.
Qed.

(* the premises are satisfiable, and the statement is not about empty tables *)
Example generic_example :
  let W := [mkG KA [1] [10]; mkG KE [2] [11]; mkG KA [3] [12]] in
  let P := [mkG KE [2] [11]; mkG KA [3] [12]; mkG KA [1] [10]; mkG KA [4] [13]] in
  let v := fun p => if str_eqb p [1] then [[65]] else if str_eqb p [2] then [[66]; [67]] else [] in
  generic_compatible W P = true /\ write W (parse P (write W v)) = write W v /\ x_kids (write W v) = [([11], [66]); ([11], [67])].
Proof. vm_compute. auto. Qed.
