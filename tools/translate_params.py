"""translate_params.py - ParamsGen.v: the hand-written parameter accessors of libadm (src/elements/*.cpp,
src/serial/*.cpp) as rows of a small expression language, plus the HasParameters<...> template lists of
the auto_base classes.  One row per (class, parameter): what get / has / isDefault / set / unset do to
which member slot.  Bodies that are not one of the recognised one-liners become Opaque."""
import os
import re

from translate import strip_comments, coq_str, read

DEF_RE = re.compile(
    r'(?P<ret>[\w:<>,\s&*]+?)\s+(?P<cls>\w+)::(?P<fn>get|has|isDefault|unset)\s*\(\s*'
    r'(?:detail::)?ParameterTraits<\s*(?P<param>[\w:]+)\s*>::tag\s*\)\s*(?P<const>const)?\s*\{', re.S)
SET_RE = re.compile(r'void\s+(?P<cls>\w+)::set\s*\(\s*(?:const\s+)?(?P<param>[\w:]+)\s*(?:&&|&)?\s*(?P<arg>\w+)\s*\)\s*\{', re.S)


def body_at(src, i):
    depth = 1
    j = i
    while j < len(src) and depth:
        if src[j] == '{':
            depth += 1
        elif src[j] == '}':
            depth -= 1
        j += 1
    return re.sub(r'\s+', ' ', src[i:j - 1]).strip()


def classify(fn, body, arg=None):
    """-> (constructor, slot or '', extra)"""
    b = body
    if fn == 'get':
        m = re.fullmatch(r'return (\w+)\.get\(\);', b)
        if m:
            return ('GetSlot', m.group(1), '')
        m = re.fullmatch(r'return \*(\w+);', b)
        if m:
            return ('GetSlot', m.group(1), '')
        m = re.fullmatch(r'return (\w+_);', b)
        if m:
            return ('GetReq', m.group(1), '')
        m = re.fullmatch(r'return boost::get_optional_value_or\((\w+), (\w+)\);', b)
        if m:
            return ('GetOr', m.group(1), m.group(2))
    elif fn == 'has':
        m = re.fullmatch(r'return (\w+) != boost::none;', b) or re.fullmatch(r'return (\w+)\.is_initialized\(\);', b) \
            or re.fullmatch(r'return static_cast<bool>\((\w+)\);', b)
        if m:
            return ('NotNone', m.group(1), '')
        if b == 'return true;':
            return ('ConstTrue', '', '')
        m = re.fullmatch(r'return !(\w+)\.empty\(\);', b) or re.fullmatch(r'return (\w+)\.size\(\) > 0;', b)
        if m:
            return ('NonEmpty', m.group(1), '')
    elif fn == 'isDefault':
        m = re.fullmatch(r'return (\w+) == boost::none;', b) or re.fullmatch(r'return !(\w+)\.is_initialized\(\);', b)
        if m:
            return ('IsNone', m.group(1), '')
        if b == 'return false;':
            return ('ConstFalse', '', '')
    elif fn == 'set':
        m = re.fullmatch(r'(\w+) = (?:std::move\()?(\w+)\)?;', b)
        if m and m.group(2) == arg:
            return ('Assign', m.group(1), '')
    elif fn == 'unset':
        m = re.fullmatch(r'(\w+) = boost::none;', b) or re.fullmatch(r'(\w+)\.reset\(\);', b)
        if m:
            return ('Clear', m.group(1), '')
        m = re.fullmatch(r'(\w+)\.clear\(\);', b)
        if m:
            return ('ClearVec', m.group(1), '')
    return ('Opaque', '', b[:120])


def scan_accessors(repo):
    rows = {}
    order = []
    dirs = ['src/elements', 'src/serial', 'src']
    for d in dirs:
        full = os.path.join(repo, d)
        for fn in sorted(os.listdir(full)):
            if not fn.endswith('.cpp'):
                continue
            rel = os.path.join(d, fn)
            src = strip_comments(read(repo, rel))
            for m in DEF_RE.finditer(src):
                key = (m.group('cls'), m.group('param').split('::')[-1])
                body = body_at(src, m.end())
                if key not in rows:
                    rows[key] = dict(file=rel)
                    order.append(key)
                rows[key][m.group('fn')] = classify(m.group('fn'), body)
            for m in SET_RE.finditer(src):
                key = (m.group('cls'), m.group('param').split('::')[-1])
                body = body_at(src, m.end())
                if key not in rows:
                    rows[key] = dict(file=rel)
                    order.append(key)
                rows[key]['set'] = classify('set', body, m.group('arg'))
    return rows, order


def scan_has_parameters(repo):
    """using XBase = HasParameters<RequiredParameter<A>, OptionalParameter<B>, ...> -> [(base name, template, param)]"""
    out = []
    inc = os.path.join(repo, 'include', 'adm')
    for root, _d, files in os.walk(inc):
        for fn in sorted(files):
            if not fn.endswith('.hpp'):
                continue
            src = strip_comments(open(os.path.join(root, fn), encoding='utf-8', errors='replace').read())
            for m in re.finditer(r'using\s+(\w+)\s*=\s*(?:detail::)?HasParameters<', src):
                i = m.end()
                depth = 1
                j = i
                while j < len(src) and depth:
                    if src[j] == '<':
                        depth += 1
                    elif src[j] == '>':
                        depth -= 1
                    j += 1
                body = src[i:j - 1]
                for mm in re.finditer(r'(Required|Optional|Default|Vector|Variant)Parameter<\s*([\w:]+)', body):
                    out.append((m.group(1), mm.group(1), mm.group(2).split('::')[-1], os.path.relpath(os.path.join(root, fn), repo)))
    return out


def expr(c):
    if c is None:
        return 'Absent'
    k, slot, extra = c
    if k == 'Opaque':
        return '(Opaque %s)' % coq_str(extra)
    if k == 'GetOr':
        return '(GetOr %s %s)' % (coq_str(slot), coq_str(extra))
    if slot:
        return '(%s %s)' % (k, coq_str(slot))
    return k


def gen_params(repo):
    rows, order = scan_accessors(repo)
    hp = scan_has_parameters(repo)
    lines = ['(* GENERATED by tools/translate_params.py from the hand-written accessors in src/ and the',
             '   HasParameters<...> lists in include/adm - do not edit *)',
             'From Adm Require Import Params.Accessors.', 'Local Open Scope N_scope.', '',
             'Definition accessor_rows : list row := [']
    rl = []
    for key in order:
        r = rows[key]
        rl.append('  mkRow %s %s %s %s %s %s %s' % (coq_str(key[0]), coq_str(key[1]), expr(r.get('get')), expr(r.get('has')),
                                                      expr(r.get('isDefault')), expr(r.get('set')), expr(r.get('unset'))))
    lines.append(';\n'.join(rl))
    lines += ['].', '', 'Definition template_rows : list (list N * template * list N) := [']
    lines.append(';\n'.join('  (%s, T%s, %s)' % (coq_str(b), t, coq_str(p)) for b, t, p, _f in hp))
    lines += ['].', '']
    opaque = [(k, f) for k in order for f in ('get', 'has', 'isDefault', 'set', 'unset')
              if rows[k].get(f) and rows[k][f][0] == 'Opaque']
    stats = dict(accessor_rows=len(order), template_rows=len(hp), opaque_bodies=len(opaque),
                 opaque_rows=sorted({'%s::%s' % k for k, _f in opaque}),
                 classes=sorted({k[0] for k in order}))
    return '\n'.join(lines), stats


GENERATORS = {'ParamsGen.v': gen_params}
