"""accgen.py - generates harness/cpp/acc_probes.inc: one probe per (class, parameter) found by
tools/translate_params.py (hand-written accessors and HasParameters<> lists), plus the factories that
create an object of each class.  Classes without a factory below are reported as not probed."""
import os

import translate_params

# how to make an object of each class (C++ expression of type C*, kept alive in a static container)
SHARED = {
    'AudioProgramme': 'AudioProgramme::create(AudioProgrammeName("n"))',
    'AudioContent': 'AudioContent::create(AudioContentName("n"))',
    'AudioObject': 'AudioObject::create(AudioObjectName("n"))',
    'AudioPackFormat': 'AudioPackFormat::create(AudioPackFormatName("n"), TypeDefinition::OBJECTS)',
    'AudioPackFormatHoa': 'AudioPackFormatHoa::create(AudioPackFormatName("n"))',
    'AudioChannelFormat': 'AudioChannelFormat::create(AudioChannelFormatName("n"), TypeDefinition::OBJECTS)',
    'AudioStreamFormat': 'AudioStreamFormat::create(AudioStreamFormatName("n"), FormatDefinition::PCM)',
    'AudioTrackFormat': 'AudioTrackFormat::create(AudioTrackFormatName("n"), FormatDefinition::PCM)',
    'AudioTrackUid': 'AudioTrackUid::create()',
}
VALUE = {
    'AudioBlockFormatDirectSpeakers': 'AudioBlockFormatDirectSpeakers()',
    'AudioBlockFormatMatrix': 'AudioBlockFormatMatrix()',
    'AudioBlockFormatObjects': 'AudioBlockFormatObjects(SphericalPosition())',
    'AudioBlockFormatHoa': 'AudioBlockFormatHoa(Order(1), Degree(1))',
    'AudioBlockFormatBinaural': 'AudioBlockFormatBinaural()',
    'AudioProgrammeId': 'AudioProgrammeId()', 'AudioContentId': 'AudioContentId()', 'AudioObjectId': 'AudioObjectId()',
    'AudioPackFormatId': 'AudioPackFormatId()', 'AudioChannelFormatId': 'AudioChannelFormatId()',
    'AudioBlockFormatId': 'AudioBlockFormatId()', 'AudioStreamFormatId': 'AudioStreamFormatId()',
    'AudioTrackFormatId': 'AudioTrackFormatId()', 'AudioTrackUidId': 'AudioTrackUidId()', 'TransportId': 'TransportId()',
    'AudioObjectInteraction': 'AudioObjectInteraction(OnOffInteract(true))',
    'GainInteractionRange': 'GainInteractionRange()', 'PositionInteractionRange': 'PositionInteractionRange()',
    'ChannelLock': 'ChannelLock()', 'JumpPosition': 'JumpPosition()', 'ObjectDivergence': 'ObjectDivergence()',
    'Frequency': 'Frequency()', 'LoudnessMetadata': 'LoudnessMetadata()',
    'SphericalPosition': 'SphericalPosition()', 'CartesianPosition': 'CartesianPosition()',
    'SphericalSpeakerPosition': 'SphericalSpeakerPosition()', 'CartesianSpeakerPosition': 'CartesianSpeakerPosition()',
    'ScreenEdgeLock': 'ScreenEdgeLock()', 'HeadphoneVirtualise': 'HeadphoneVirtualise()',
    'SphericalPositionOffset': 'SphericalPositionOffset()', 'CartesianPositionOffset': 'CartesianPositionOffset()',
    'FrameFormat': 'FrameFormat(FrameFormatId(FrameIndex(1)), Start(std::chrono::nanoseconds(0)), '
                   'Duration(std::chrono::nanoseconds(1000000000)), FrameType::FULL)',
    'TransportTrackFormat': 'TransportTrackFormat(TransportId(TransportIdValue(1)))',
    'AudioTrack': 'AudioTrack(TrackId(1))',
    'Label': 'Label()',
}
# HasParameters base alias -> class
BASE_CLASS = {}


def class_of_base(b):
    return b[:-4] if b.endswith('Base') else b


# parameters that are alternatives of one variant: setting one must clear the others
EXCLUSIVE = {
    'AudioContent': ['NonDialogueContentKind', 'DialogueContentKind', 'MixedContentKind'],
    'AudioBlockFormatObjects': ['SphericalPosition', 'CartesianPosition'],
    'AudioBlockFormatDirectSpeakers': ['SphericalSpeakerPosition', 'CartesianSpeakerPosition'],
    'AudioObject': ['SphericalPositionOffset', 'CartesianPositionOffset'],
}

TEMPLATE_CAPS = {'Required': 'gsh', 'Optional': 'gshdu', 'Default': 'gshdu', 'Vector': 'gshdu'}
# parameters the random fill must not touch (they tie an element to its ID / to the kind of its content)
NO_FILL = {'TypeDescriptor', 'FormatDescriptor_', 'TransportId', 'FrameFormatId', 'TrackId'}
BLOCKS = {'AudioBlockFormatDirectSpeakers', 'AudioBlockFormatMatrix', 'AudioBlockFormatObjects', 'AudioBlockFormatHoa',
          'AudioBlockFormatBinaural'}


def generate(repo, outpath):
    rows, order = translate_params.scan_accessors(repo)
    hp = translate_params.scan_has_parameters(repo)
    caps = {}
    kinds = {}
    pairs = []
    for (c, p) in order:
        r = rows[(c, p)]
        if c == 'AudioChannelFormat' and p in BLOCKS:
            continue          # get<Block>() returns a range of blocks, not a parameter value
        caps[(c, p)] = ''.join(k for k, f in (('g', 'get'), ('s', 'set'), ('h', 'has'), ('d', 'isDefault'), ('u', 'unset')) if f in r)
        g = r.get('get', ('', '', ''))[0]
        h = r.get('has', ('', '', ''))[0]
        # defaulted = has() is constantly true and get() falls back to a default; a has() that tests the
        # slot makes the parameter optional whatever get() does when it is unset (speaker position Distance / Z)
        kinds[(c, p)] = ('D' if (g == 'GetOr' and h == 'ConstTrue') else 'O' if h == 'NotNone'
                         else 'R' if (g == 'GetReq' and h in ('ConstTrue', '')) else '?')
        pairs.append((c, p))
    for b, t, p, _f in hp:
        c = class_of_base(b)
        if t not in TEMPLATE_CAPS or p.endswith('Parameter'):
            continue
        if (c, p) not in caps:
            caps[(c, p)] = TEMPLATE_CAPS[t]
            kinds[(c, p)] = t[0]
            pairs.append((c, p))
    classes = []
    for c, _p in pairs:
        if c not in classes:
            classes.append(c)
    skipped = [c for c in classes if c not in SHARED and c not in VALUE]
    classes = [c for c in classes if c in SHARED or c in VALUE]

    def targs(c, p):
        k = caps[(c, p)]
        return '%s, %s, %s' % (c, p, ', '.join('true' if x in k else 'false' for x in 'gshdu'))

    def sargs(c, p):
        k = caps[(c, p)]
        return '%s, %s, %s' % (c, p, ', '.join('true' if x in k else 'false' for x in 'ghd'))
    T = ['// GENERATED by tools/accgen.py - per-class parameter tables (fingerprint and random fill) - do not edit',
         'namespace {']
    L = ['// GENERATED by tools/accgen.py - do not edit', 'namespace {']
    ID_CLASSES = {c for c in classes if c.endswith('Id')}
    for c in classes:
        T.append('std::string others_%s(const %s& c, const char* skip);' % (c, c))
        T.append('void fill_%s(%s& c, Rng& rng);' % (c, c))
    for c in classes:
        if c in VALUE and c not in ID_CLASSES:
            T.append('template <> struct Shower<%s> { static std::string str(const %s& v) { return "{" + others_%s(v, "") + "}"; } };' % (c, c, c))
            T.append('template <> struct Gen<%s> { static boost::optional<%s> make(Rng& r) { %s v = %s; fill_%s(v, r); return v; } };'
                     % (c, c, c, VALUE[c], c))
    for c in classes:
        ps = [p for cc, p in pairs if cc == c]
        if c in SHARED:
            L.append('%s* make_%s() { static std::vector<std::shared_ptr<%s>> keep; keep.push_back(%s); return keep.back().get(); }'
                     % (c, c, c, SHARED[c]))
        else:
            L.append('%s* make_%s() { static std::vector<std::unique_ptr<%s>> keep; keep.emplace_back(new %s(%s)); return keep.back().get(); }'
                     % (c, c, c, c, VALUE[c]))
        T.append('std::string others_%s(const %s& c, const char* skip) {' % (c, c))
        T.append('  std::ostringstream o;')
        for p in ps:
            T.append('  if (std::string(skip) != "%s") o << "%s=" << state_of<%s>(c) << "/";' % (p, p, sargs(c, p)))
        T.append('  return o.str();')
        T.append('}')
        T.append('void fill_%s(%s& c, Rng& rng) {' % (c, c))
        T.append('  (void)c; (void)rng;')
        for p in ps:
            if p.endswith('Id') and p.startswith('Audio') or p in NO_FILL:
                continue      # element IDs are set by the scripts, not by the random fill
            T.append('  maybe_set<%s, %s>(c, rng, std::integral_constant<bool, %s>());' % (c, p, 'true' if 's' in caps[(c, p)] else 'false'))
        T.append('}')
    T += ['}  // namespace', '']
    L.append('void run_all_probes(std::ostream& out) {')
    for c, p in pairs:
        if c in classes:
            L.append('  probe<%s>(out, "%s", "%s", "%s", make_%s, [](const %s& c) { return others_%s(c, "%s"); });'
                     % (targs(c, p), c, p, kinds[(c, p)], c, c, c, p))
    ncross = 0
    for c, alts in EXCLUSIVE.items():
        if c not in classes:
            continue
        for a in alts:
            for b in alts:
                if a != b:
                    L.append('  cross<%s, %s, %s>(out, "%s", "%s", "%s", make_%s);' % (c, a, b, c, a, b, c))
                    ncross += 1
    for c in skipped:
        L.append('  out << "acc-skipped %s\\n";' % c)
    L += ['}', '}  // namespace', '']
    for path, text in ((outpath, '\n'.join(L)), (os.path.join(os.path.dirname(outpath), 'probe_tables.inc'), '\n'.join(T))):
        old = open(path).read() if os.path.exists(path) else None
        if old != text:
            open(path, 'w').write(text)
    return dict(pairs=len([1 for c, p in pairs if c in classes]), classes=len(classes), skipped=skipped, cross_probes=ncross)


if __name__ == '__main__':
    import sys
    print(generate(sys.argv[1], sys.argv[2]))
