#!/bin/bash
# multiseed.sh - quick tier of every check on the unchanged tree for several seeds (false-alarm hunt), then seed 1 last
cd /verif
out=/verif/build/multiseed.txt
: > $out
for seed in 2 3 5 8 1; do
  for p in C01 C02 C03 C04 C05 C06 C07 C08 C09 C10 C11 C12 C13 C14 C15 C16 C17 C18 C19 C20; do
    VERIF_SEED=$seed ./check $p --tier quick > /verif/build/ms_$p.log 2>&1; rc=$?
    echo "seed=$seed $p rc=$rc $(tail -1 /verif/build/ms_$p.log | cut -c1-160)" >> $out
    if [ $rc -ne 0 ]; then cp /verif/build/ms_$p.log /verif/build/ms_FAIL_${seed}_$p.log; fi
  done
done
echo DONE >> $out
