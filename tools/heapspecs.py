"""heapspecs.py - per-property generators and oracles for the heap properties C03-C06, C12 (and the
parts of C11 visible in snapshots). Oracles look at libadm's output only."""
import os

import heapgen
from heapcheck import (parse_snapshot, oracle_wf, oracle_sync, oracle_acyclic, oracle_uniq, oracle_idshape,
                       is_undefined, is_reserved, is_silent)

MUTATORS = ('add', 'remove', 'addref', 'rmref', 'setref', 'unsetref', 'clearrefs', 'setid')


def upto_first_exn(ops, allow=()):
    """Ops of the history up to (not including) the first exception raised by a mutating call."""
    out = []
    for op, r, snap in ops:
        if r.startswith('exn') and r.split()[1] not in allow:
            break
        out.append((op, r, snap))
    return out


def snaps_with_prev(ops):
    """[(op, result, before Snap or None, after Snap)] for ops directly followed by a snapshot."""
    res = []
    prev = None
    pending = None
    alias = {}
    npending = 0
    for op, r, snap in ops:
        t = op.split()
        if t[0] == 'silent' and r.startswith('ok h') and r.split()[1] != t[1]:
            alias[t[1]] = r.split()[1]       # getSilent returned the document's existing silent UID
        elif alias:
            op = ' '.join(alias.get(x, x) for x in t)
        if op == 'snapshot':
            cur = parse_snapshot(snap)
            if pending is not None:
                # `before` is meaningful only when exactly one op lies between the two snapshots
                res.append((pending[0], pending[1], prev if npending == 1 else None, cur))
                pending = None
            prev = cur
            npending = 0
        elif not op.startswith('new'):
            pending = (op, r)
            npending += 1
    return res


def tag_of(msg):
    if 'references' in msg and 'through' in msg:
        return 'ref-outside:' + msg.split('through ')[1].split(',')[0]
    if 'twice' in msg:
        return 'listed-twice'
    if 'is listed by' in msg:
        return 'two-documents'
    if 'has parent' in msg:
        return 'parent-mismatch'
    return 'other'


def silent_refs(rng, pool, docs):
    """A silent track UID referenced 1-3 times by one object (silent UIDs may repeat), then removed."""
    if not pool.by_kind['obj']:
        return None
    h = pool.fresh()
    pool.by_kind['uid'].append(h)
    o = rng.choice(pool.by_kind['obj'])
    d = rng.choice(docs)
    lines = ['silent %s %s' % (h, rng.choice([d, '-']))]
    for _ in range(rng.randrange(1, 4)):
        lines.append('addref objuid %s %s' % (o, h))
    if rng.random() < 0.35:     # the UID stops being silent while it is referenced several times
        lines.append('setid %s 0 %d 0' % (h, rng.choice([1, 2, 3, 7, 0x1001])))
    if rng.random() < 0.7:
        lines.append('add %s %s' % (d, o))
    if rng.random() < 0.7:
        lines.append('remove %s %s' % (d, h))
    return lines


class Base:
    what = 'extracted exec (heap model, plans regenerated from src/document.cpp) vs libadm API calls, full snapshots'
    assumptions = ['handles never expire (the driver keeps every shared_ptr alive); weak_ptr expiry is outside the model',
                   'histories are generated from a pool of at most a few elements per kind and two documents; the '
                   'theorems have no such bound',
                   '32-bit wrap-around of ID counters is outside the model and the generators']
    nops_quick, ncases_quick, nops_thorough, ncases_thorough = 30, 2500, 40, 20000
    gen_args = {}

    @classmethod
    def gen(cls, ctx):
        n = cls.ncases_quick if ctx.quick() else cls.ncases_thorough
        nops = cls.nops_quick if ctx.quick() else cls.nops_thorough
        return [heapgen.gen_history(ctx.rng, nops=ctx.rng.choice([nops // 3, nops, nops]), **cls.gen_args)
                for _ in range(n)]

    @staticmethod
    def nontrivial(ops):
        oks = [op.split()[0] for op, r, _s in ops if r.startswith('ok') and op != 'snapshot']
        return 'add' in oks and ('addref' in oks or 'setref' in oks)


class C03(Base):
    rule = ('random histories over a pool of 1-4 elements per kind and two documents, ops drawn from add/remove/'
            'addReference/setReference/removeReference/clearReferences/complementary/set(Id)/getSilent/lookup/create, '
            'snapshot after every op; non-trivial = distinct histories with a successful add and a successful reference edit')

    @staticmethod
    def oracle(case, ops):
        out = []
        good = upto_first_exn(ops)
        for op, r, before, after in snaps_with_prev(good):
            ms = oracle_wf(after)
            for m in ms:
                out.append((tag_of(m), 'after `%s`: %s' % (op, m)))
            if ms:
                break      # later snapshots inherit the broken state
        # a call linking two documents, or attaching to a second one, must throw
        for op, r, before, after in snaps_with_prev(ops[:len(good) + 1]):
            t = op.split()
            if before is None:
                continue
            if t[0] in ('addref', 'setref') and t[2] in before.els and t[3] in before.els:
                pa, pb = before.els[t[2]]['parent'], before.els[t[3]]['parent']
                if pa and pb and pa != pb and not r.startswith('exn'):
                    out.append(('cross-document-link-accepted', '`%s` links elements of %s and %s and returned %s' % (op, pa, pb, r)))
            if t[0] == 'add' and t[2] in before.els:
                p = before.els[t[2]]['parent']
                if p and p != t[1] and not r.startswith('exn'):
                    out.append(('second-document-accepted', '`%s`: element already belongs to %s, returned %s' % (op, p, r)))
        return out


class C04(Base):
    rule = ('as C03 with removals three times as frequent; every successful or unsuccessful remove is compared with the '
            'snapshot before it; non-trivial = distinct histories in which a remove returned true for a referenced element')
    gen_args = dict(weights=dict(remove=25, addref=30),
                    extra_ops=dict(silentrefs=(3, lambda rng, pool, docs: silent_refs(rng, pool, docs)),
                                   fanin=heapgen.EXTRA['fanin']))

    @staticmethod
    def nontrivial(ops):
        return any(op.startswith('remove') and r == 'ok true' for op, r, _s in ops)

    @staticmethod
    def oracle(case, ops):
        out = []
        good = upto_first_exn(ops)
        for op, r, before, after in snaps_with_prev(good):
            t = op.split()
            if t[0] != 'remove' or before is None:
                continue
            d, x = t[1], t[2]
            if oracle_wf(before):
                continue   # the guarantee is about reachable well-formed states; C03 reports the rest
            if r == 'ok false':
                if before.key() != after.key():
                    out.append(('remove-false-changed', '`%s` returned false but changed the state' % op))
                continue
            if r != 'ok true':
                continue
            if after.els[x]['parent'] is not None:
                out.append(('remove-parent', '`%s`: %s still has parent %s' % (op, x, after.els[x]['parent'])))
            for k, l in after.docs[d].items():
                if x in l:
                    out.append(('remove-listed', '`%s`: %s still listed' % (op, x)))
                if l != [y for y in before.docs[d][k] if y != x]:
                    out.append(('remove-frame-members', '`%s`: membership list %s changed: %s -> %s' % (op, k, before.docs[d][k], l)))
            for h, e in after.els.items():
                b = before.els.get(h)
                if b is None:
                    continue
                if e['parent'] == d:
                    for rk, l in e['refs'].items():
                        if x in l:
                            out.append(('remove-still-referenced:' + rk, '`%s`: %s still references %s through %s (%s)'
                                        % (op, h, x, rk, l)))
                if h == x:
                    for rk, l in e['refs'].items():
                        if l != b['refs'][rk] and rk not in ('trackstream', 'streamtrack'):
                            out.append(('remove-frame-own-refs', '`%s`: own references %s of %s changed' % (op, rk, x)))
                    if (e['id'], e['td'], e['blocks'], e['extra']) != (b['id'], b['td'], b['blocks'], b['extra']):
                        out.append(('remove-frame', '`%s`: %s itself changed' % (op, x)))
                    continue
                for rk, l in e['refs'].items():
                    want = [y for y in b['refs'][rk] if y != x] if b['parent'] == d else b['refs'][rk]
                    if l != want and not (x in l and b['parent'] == d):
                        out.append(('remove-frame-refs', '`%s`: references %s of %s changed from %s to %s'
                                    % (op, rk, h, b['refs'][rk], l)))
                if (e['parent'], e['id'], e['td'], e['blocks'], e['extra']) != (b['parent'], b['id'], b['td'], b['blocks'], b['extra']):
                    out.append(('remove-frame', '`%s`: %s changed' % (op, h)))
        return out


def least_free(used, pref):
    v = pref
    while v in used:
        v += 1
    return v


class C05(Base):
    rule = ('add/remove/set(Id)/lookup-heavy histories with pre-set IDs drawn from undefined, 0x1000, 0x1001, gaps, taken, '
            'reserved and top-of-field values, all type descriptors, track-format counters; non-trivial = distinct '
            'histories in which an add assigned or kept an ID next to an already listed element of the same kind')
    gen_args = dict(extra_ops={'collide': heapgen.EXTRA['collide']},
                    weights=dict(add=30, setid=25, remove=10, lookup=10, addref=10, setref=6))

    @staticmethod
    def nontrivial(ops):
        return sum(1 for op, r, _s in ops if op.startswith('add ') and r == 'ok true') >= 2

    @staticmethod
    def oracle(case, ops):
        out = []
        good = upto_first_exn(ops)
        broken = False
        for op, r, before, after in snaps_with_prev(good):
            if broken:
                break
            for m in oracle_uniq(after):
                out.append(('duplicate-id', 'after `%s`: %s' % (op, m)))
                broken = True
            t = op.split()
            if before is None:
                continue
            if t[0] == 'lookup':
                d, k, i = t[1], t[2], (int(t[3]), int(t[4]), int(t[5]))
                cands = [h for h in before.docs[d][k] if before.els[h]['id'] == i]
                if len(cands) <= 1:
                    want = 'ok ' + (cands[0] if cands else '-')
                    if r != want:
                        out.append(('lookup', '`%s` returned %s, the document holds %s' % (op, r, cands)))
            if t[0] == 'add' and r == 'ok true' and t[2] in before.els:
                d, h = t[1], t[2]
                for k, l in before.docs[d].items():
                    for y in l:
                        if after.els[y]['id'] != before.els[y]['id']:
                            out.append(('add-changed-existing-id', '`%s` changed the ID of %s from %s to %s'
                                        % (op, y, before.els[y]['id'], after.els[y]['id'])))
                k = before.els[h]['kind']
                bi, ai = before.els[h]['id'], after.els[h]['id']
                if k in ('prog', 'cont', 'obj', 'uid', 'pack', 'chan') and before.els[h]['parent'] is None:
                    if is_reserved(k, bi) or is_silent(k, bi):
                        want = bi
                    else:
                        ty = before.els[h]['td'] if k in ('pack', 'chan') else 0
                        used = {before.els[y]['id'][1] for y in before.docs[d][k]
                                if k not in ('pack', 'chan') or before.els[y]['id'][0] == ty}
                        pref = (1 if k == 'uid' else 0x1001) if is_undefined(k, bi) else bi[1]
                        want = (ty, least_free(used, pref), 0)
                    if ai != want:
                        out.append(('add-assigned-wrong-id', '`%s`: %s had ID %s, got %s, expected %s' % (op, h, bi, ai, want)))
        for op, r, before, after in snaps_with_prev(ops[:len(good) + 1]):
            t = op.split()
            if t[0] == 'setid' and before is not None and t[1] in before.els:
                e = before.els[t[1]]
                i = (int(t[2]), int(t[3]), int(t[4]))
                if e['parent'] and not is_undefined(e['kind'], i):
                    if any(before.els[y]['id'] == i for y in before.docs[e['parent']][e['kind']]) and r != 'exn IdInUse':
                        out.append(('setid-in-use-accepted', '`%s`: the ID is in use in %s but the call returned %s' % (op, e['parent'], r)))
        return out

    @staticmethod
    def extra(ctx, proof, found):
        # the extracted model evaluates, on every generated history, the guard of the uniqueness theorem
        # (Heap/Uniq.v shaped_run_b) and the invariant itself (uniq_b, sound by uniq_b_sound) after every call
        st = getattr(ctx, 'model_stats', {}) or {}
        ctx.coverage['theorem_guard'] = dict(
            histories=st.get('cases', 0), satisfying_shaped_run=st.get('guard_ok', 0),
            model_uniqueness_failures_with_guard=st.get('uniq_fail_guarded', 0),
            model_uniqueness_failures_without_guard=st.get('uniq_fail_unguarded', 0),
            note='histories that use calls outside the theorem (copies, reassignIds, ...) count as not satisfying the guard')
        if st.get('uniq_fail_guarded', 0) and not found:
            ctx.violation('the extracted model breaks ID uniqueness on a history that satisfies the guard of '
                          'C05_ids_unique_in_every_history: the theorem and the executable model disagree',
                          dict(kind='theorem-vs-extraction', theorem='C05_ids_unique_in_every_history', stats=st),
                          found_input=False)


class C06(Base):
    rule = ('reference-edit histories over 3-8 objects and pack formats (nested objects, complementary objects, nested '
            'packs; diamonds, chains, self-references, would-be cycles); non-trivial = distinct histories with at least '
            'two successful object/pack edges')
    gen_args = dict(kinds=['obj', 'pack', 'cont', 'chan'],
                    weights=dict(addref=60, add=10, remove=6, rmref=8, clearrefs=3, setref=0, unsetref=0, setid=2, silent=0, lookup=0, new=3))

    @classmethod
    def gen(cls, ctx):
        n = cls.ncases_quick if ctx.quick() else cls.ncases_thorough
        out = []
        for _ in range(n):
            sizes = dict(obj=ctx.rng.randrange(3, 9), pack=ctx.rng.randrange(3, 9), cont=1, chan=1)
            out.append(heapgen.gen_history(ctx.rng, nops=ctx.rng.choice([12, 30, 45]), pool_sizes=sizes, **cls.gen_args))
        return out

    @staticmethod
    def nontrivial(ops):
        return sum(1 for op, r, _s in ops if op.startswith('addref') and r == 'ok true') >= 2

    @staticmethod
    def oracle(case, ops):
        out = []
        good = upto_first_exn(ops, allow=('Cycle',))
        for op, r, before, after in snaps_with_prev(good):
            ms = oracle_acyclic(after)
            for m in ms:
                out.append(('cycle:' + m.split()[0], 'after `%s`: %s' % (op, m)))
            if ms:
                break
            if r == 'exn Cycle' and before is not None and before.key() != after.key():
                out.append(('cycle-exception-changed-state', '`%s` threw the cycle exception but changed the state' % op))
        return out


class C12(Base):
    rule = ('histories over 2-4 stream formats and 2-6 track formats (plus channel/pack formats and track UIDs): '
            'addReference/removeReference/clearReferences on the stream side, setReference/removeReference on the track '
            'side, re-pointing, add/remove of either side; non-trivial = distinct histories with two successful links')
    gen_args = dict(kinds=['stream', 'track', 'chan', 'pack', 'uid'],
                    rks=['streamtrack', 'trackstream', 'streamchan', 'uidtrack', 'streampack'],
                    weights=dict(addref=25, setref=25, rmref=10, unsetref=8, clearrefs=8, add=15, remove=10, setid=2, silent=0, lookup=0, new=2))

    @classmethod
    def gen(cls, ctx):
        n = cls.ncases_quick if ctx.quick() else cls.ncases_thorough
        out = []
        for _ in range(n):
            sizes = dict(stream=ctx.rng.randrange(2, 5), track=ctx.rng.randrange(2, 7), chan=1, pack=1, uid=1)
            out.append(heapgen.gen_history(ctx.rng, nops=ctx.rng.choice([10, 25, 40]), pool_sizes=sizes, **cls.gen_args))
        return out

    @staticmethod
    def nontrivial(ops):
        return sum(1 for op, r, _s in ops if (op.startswith('addref streamtrack') and r == 'ok true')
                   or (op.startswith('setref trackstream') and r == 'ok')) >= 2

    @staticmethod
    def oracle(case, ops):
        out = []
        # C12 is stated for any sequence of public calls: a call that throws is one of them
        for op, r, before, after in snaps_with_prev(ops):
            ms = oracle_sync(after)
            for m in ms:
                t = op.split()
                out.append(('unsynchronised-after:' + t[0] + (':' + t[1] if t[0] in ('clearrefs', 'rmref', 'unsetref', 'addref', 'setref') else ''),
                            'after `%s`: %s' % (op, m)))
            if ms:
                break
        return out


SPECS = {'C03': C03, 'C04': C04, 'C05': C05, 'C06': C06, 'C12': C12}


# ===========================================================================
# C09, C11, C14, C16, C18: copies, ID structure, reassignIds, durations, route tracing
# ===========================================================================
from fractions import Fraction

import heapcheck


def tm_frac(s):
    """'ns:<n>' / 'fr:<n>/<d>' -> Fraction of seconds; '-' -> None."""
    if s == '-':
        return None
    if s.startswith('ns:'):
        return Fraction(int(s[3:]), 10 ** 9)
    n, d = s[3:].split('/')
    return Fraction(int(n), int(d))


def elem_view(s, h, rename):
    """Content of one element with its references renamed (for comparing a copy with its original)."""
    e = s.els[h]
    refs = tuple(sorted((rk, tuple(rename.get(x, x) for x in l)) for rk, l in e['refs'].items()))
    return (e['kind'], e['id'], e['td'], e['blocks'], tuple(sorted(e['extra'].items())), refs)


def doc_view(s, d):
    """Canonical content of a document: elements by position, references by position."""
    pos = {}
    for k, l in s.docs[d].items():
        for i, h in enumerate(l):
            pos[h] = '%s#%d' % (k, i)
    out = []
    for k in sorted(s.docs[d]):
        for h in s.docs[d][k]:
            out.append((pos[h],) + elem_view(s, h, pos))
    return out


class C09(Base):
    ncases_thorough = 120000
    rule = ('histories (as C03, plus block formats, times, helper objects) ending in deepCopy or deepCopyTo, followed by '
            'a mutation suffix generated from the real post-copy pool on either side; non-trivial = distinct histories '
            'whose copied document holds at least three elements and one reference')
    gen_args = dict(extra_ops={k: heapgen.EXTRA[k] for k in ('block', 'settimes', 'simple', 'copy')},
                    weights=dict(add=30, addref=30, setref=14, remove=4, setid=6))

    @classmethod
    def gen(cls, ctx):
        n = (cls.ncases_quick if ctx.quick() else cls.ncases_thorough) // 2
        rng = ctx.rng
        prefixes = []
        for _ in range(n):
            lines = heapgen.gen_history(rng, nops=rng.choice([8, 20, 30]), snapshot_every=0, **cls.gen_args)
            lines = [l for l in lines if l not in ('end', 'snapshot')]
            nd = 2
            base = 5000
            which = rng.choice(['deepcopy', 'deepcopy', 'deepcopyto'])
            src = rng.choice(['d0', 'd0', 'd1'])
            if which == 'deepcopy':
                lines += ['snapshot', 'deepcopy %s d%d %d' % (src, nd, base), 'snapshot']
            else:
                dst = 'd1' if src == 'd0' else 'd0'
                lines += ['snapshot', 'deepcopyto %s %s %d' % (src, dst, base), 'snapshot']
            prefixes.append(lines)
        # run the prefixes on libadm to learn the names of the copies, then add a mutation suffix
        import vlib
        out = heapcheck.run_cases(os.path.join(vlib.BUILD, 'drv-plain', 'admdrv'), [p + ['end'] for p in prefixes])
        cases = []
        for lines, o in zip(prefixes, out):
            ops = heapcheck.split_ops(lines + ['end'], o)
            snap = None
            for op, r, sn in ops:
                if op == 'snapshot':
                    snap = sn
            pool = heapgen.Pool()
            pool.next = 9000
            docs = []
            if snap:
                s = parse_snapshot(snap)
                docs = sorted(s.docs)
                for h, e in s.els.items():
                    pool.by_kind[e['kind']].append(h)
                    if e['td'] is not None:
                        pool.td[h] = e['td']
            # reassignIds of either side is part of the suffix: with both documents present, a renumbering that reached into
            # the other document shows as a difference between libadm and the model (theorem C09_reassignIds_is_local)
            suffix = heapgen.gen_suffix(rng, pool, docs or ['d0', 'd1'], nops=rng.choice([0, 6, 15]),
                                        weights=dict(reassign=6)) if snap else []
            cases.append(lines + suffix + ['end'])
        return cases

    @staticmethod
    def nontrivial(ops):
        for op, r, sn in ops:
            if op.startswith('deepcopy') and r == 'ok':
                return True
        return False

    @staticmethod
    def oracle(case, ops):
        out = []
        good = upto_first_exn(ops)
        copied = None
        for op, r, before, after in snaps_with_prev(good):
            t = op.split()
            if t[0] == 'deepcopy' and r == 'ok' and before is not None and not oracle_wf(before):
                src, dst = t[1], t[2]
                if doc_view(after, src) != doc_view(after, dst):
                    a, b = doc_view(after, src), doc_view(after, dst)
                    diff = next((x for x in zip(a, b) if x[0] != x[1]), (len(a), len(b)))
                    out.append(('copy-differs', '`%s`: the copy differs from the original: %s' % (op, str(diff)[:300])))
                if doc_view(after, src) != doc_view(before, src):
                    out.append(('copy-changed-original', '`%s` changed the original' % op))
                for k, l in after.docs[dst].items():
                    for h in l:
                        if after.els[h]['parent'] != dst:
                            out.append(('copy-parent', '`%s`: %s of the copy has parent %s' % (op, h, after.els[h]['parent'])))
                        if h in before.els:
                            out.append(('copy-shares-element', '`%s`: the copy lists the existing element %s' % (op, h)))
                for m in oracle_wf(after) + oracle_sync(after) + oracle_acyclic(after):
                    out.append(('copy-not-wellformed', '`%s`: %s' % (op, m)))
                copied = (src, dst)
                continue
            if t[0] == 'deepcopy' and r.startswith('exn') and before is not None and not oracle_wf(before) \
                    and not oracle_sync(before) and not oracle_acyclic(before):
                out.append(('copy-throws', '`%s` threw %s on a well-formed document' % (op, r)))
            if copied and before is not None:
                # a later call that names nothing of one side leaves that side's content unchanged
                for side in copied:
                    if side not in before.docs or side not in after.docs:
                        continue
                    names = {side} | {h for h, e in before.els.items() if e['parent'] == side}
                    if not (set(t[1:]) & names) and t[0] not in ('deepcopyto',):
                        if doc_view(before, side) != doc_view(after, side):
                            out.append(('copy-not-independent', '`%s` names nothing of %s but changed its content' % (op, side)))
        return out


    @staticmethod
    def extra(ctx, proof, found):
        """Second batch, on libadm only: API histories that fill every settable parameter of every element and block
        with random valid values (the C01 generator), then Document::deepCopy and an accessor-level comparison of copy
        and original - every parameter, block, reference list (by ID) - and of the XML written from each."""
        import vlib
        import xmlspecs
        n = 150 if ctx.quick() else 6000
        hist = [xmlspecs.xml_history(ctx.rng, quick=True) for _ in range(n)]
        hist = xmlspecs.successful_prefixes(hist)
        cases = []
        for c, docs in hist:
            src = ctx.rng.choice(docs)
            cases.append(c + ['deepcopy %s d9 7000' % src, 'cmpdocs %s d9' % src, 'end'])
        exe = vlib.build_admdrv('plain')
        outs = heapcheck.run_cases(exe, cases)

        def verdict(lines, out):
            ops = heapcheck.split_ops(lines, out)
            for k, (op, r, _s) in enumerate(ops):
                if op.startswith('cmpdocs') and not r.startswith('ok same'):
                    prev = ops[k - 1][1] if k else ''
                    if prev == 'ok':          # the copy succeeded and differs
                        return '`%s` after a successful deepCopy: %s' % (op, r[:300])
            return None
        bad = [(k, verdict(c, o)) for k, (c, o) in enumerate(zip(cases, outs)) if verdict(c, o)]
        filled = sum(1 for c in cases if any(l.startswith('fill ') for l in c))
        ctx.coverage['parameter_level_copies'] = dict(histories=len(cases), with_filled_elements=filled, differing=len(bad),
                                                      rule='xml_history (fill/fillblock/setid/common definitions) + deepcopy + cmpdocs on libadm')
        if bad and not found:
            k, msg = bad[0]

            def fails(lines):
                out = heapcheck.run_cases(exe, [lines], shards=1)[0]
                return verdict(lines, out) is not None
            tail = cases[k][-3:]
            small = heapcheck.shrink(cases[k][:-3] + ['end'], lambda ls: fails([l for l in ls if l != 'end'] + tail))
            small = [l for l in small if l != 'end'] + tail
            out = heapcheck.run_cases(exe, [small], shards=1)[0]
            ctx.violation(verdict(small, out) or msg,
                          dict(kind='oracle', tag='copy-parameters-differ', script=small, libadm_output=out,
                               original_case=cases[k]), tag='copy-parameters-differ')

class C11(Base):
    rule = ('histories of create / add-block (undefined and explicit IDs, all five block types) / add / set(Id) / '
            'reassignIds / copy over channel formats of every type, stream/track pairs added in either order; '
            'non-trivial = distinct histories with a channel format holding two or more blocks and a defined ID')
    gen_args = dict(kinds=['chan', 'pack', 'stream', 'track', 'uid', 'obj'],
                    extra_ops={k: heapgen.EXTRA[k] for k in ('block', 'reassign', 'copy', 'simple')},
                    weights=dict(block=40, add=18, setid=16, addref=8, setref=10, remove=4, reassign=5, copy=4, silent=0, lookup=0))

    @staticmethod
    def nontrivial(ops):
        return sum(1 for op, r, _s in ops if op.startswith('block') and r == 'ok') >= 2

    @staticmethod
    def oracle(case, ops):
        out = []
        # every step of every call keeps the ID structure, so the snapshots after a throwing call count too
        for op, r, before, after in snaps_with_prev(ops):
            ms = oracle_idshape(after)
            for m in ms:
                out.append(('id-structure', 'after `%s`: %s' % (op, m)))
            t = op.split()
            if t[0] == 'add' and r == 'ok true' and before is not None and t[2] in before.els:
                e = before.els[t[2]]
                if e['kind'] == 'track' and is_undefined('track', e['id']) and e['parent'] is None and e['refs'].get('trackstream'):
                    st = e['refs']['trackstream'][0]
                    if after.els[t[2]]['id'][:2] != after.els[st]['id'][:2]:
                        out.append(('track-id-not-from-stream', '`%s`: track format got %s, its stream format has %s'
                                    % (op, after.els[t[2]]['id'], after.els[st]['id'])))
            if t[0] == 'block' and r == 'ok' and before is not None:
                # automatically numbered first block starts at 1
                h, ty = t[1], t[2]
                if t[3:6] == ['0', '0', '0'] and before.els[h]['blocks'] is not None:
                    vecs = dict(v.split(':') for v in after.els[h]['blocks'].strip('{}').split(';') if v)
                    ids = vecs.get(ty, '').split(',')
                    if len(ids) == 1 and not ids[0].endswith('.1'):
                        out.append(('first-block-not-1', '`%s`: first automatically numbered block got %s' % (op, ids[0])))
            if ms:
                break
        return out


class C14(Base):
    rule = ('documents built by C03-style histories (sparse, colliding-after-removal, reserved and silent IDs, shared '
            'channel formats, stream formats without channel format, track UID -> channel format links, blocks) followed '
            'by reassignIds twice; non-trivial = distinct histories whose reassigned document lists at least four elements')
    gen_args = dict(extra_ops={k: heapgen.EXTRA[k] for k in ('block', 'simple', 'reassign')},
                    weights=dict(add=30, setid=14, addref=22, setref=14, remove=8, reassign=6, silent=4))

    @classmethod
    def gen(cls, ctx):
        cases = Base.gen.__func__(cls, ctx)
        out = []
        for c in cases:
            c = [l for l in c if l != 'end']
            d = ctx.rng.choice(['d0', 'd0', 'd1'])
            out.append(c + ['reassign ' + d, 'snapshot', 'reassign ' + d, 'snapshot', 'end'])
        return out

    @staticmethod
    def nontrivial(ops):
        return any(op.startswith('reassign') and r == 'ok' for op, r, _s in ops)

    @staticmethod
    def oracle(case, ops):
        out = []
        # gated on the state before the call being well-formed, not on earlier calls having succeeded
        for op, r, before, after in snaps_with_prev(ops):
            t = op.split()
            if t[0] != 'reassign' or before is None or t[1] not in before.docs:
                continue
            if oracle_wf(before) or oracle_sync(before) or oracle_acyclic(before) or oracle_idshape(before):
                continue
            if r != 'ok':
                if not oracle_uniq(before):
                    out.append(('reassign-throws', '`%s` threw %s on a well-formed document' % (op, r)))
                continue
            d = t[1]
            for m in oracle_uniq(after):
                out.append(('reassign-duplicate', '`%s`: %s' % (op, m)))
            for m in oracle_idshape(after):
                out.append(('reassign-id-structure', '`%s`: %s' % (op, m)))
            # frame: everything but IDs and block IDs
            for h, e in after.els.items():
                b = before.els.get(h)
                if b is None:
                    continue
                if (e['parent'], e['refs'], e['td'], e['extra']) != (b['parent'], b['refs'], b['td'], b['extra']):
                    out.append(('reassign-frame', '`%s` changed %s beyond its ID' % (op, h)))
                if is_reserved(e['kind'], b['id']) and e['id'] != b['id']:
                    out.append(('reassign-reserved-changed', '`%s` changed the reserved ID of %s' % (op, h)))
                if is_silent(e['kind'], b['id']) and e['id'] != b['id']:
                    out.append(('reassign-silent-changed', '`%s` changed the silent track UID %s to %s' % (op, h, e['id'])))
                if b['parent'] != d and e['id'] != b['id'] and not referenced_from(before, d, h):
                    out.append(('reassign-outside', '`%s` changed the ID of %s, which is not in %s' % (op, h, d)))
            if after.docs != before.docs:
                out.append(('reassign-frame', '`%s` changed a membership list' % op))
            # dense numbering
            for k, first in (('prog', 0x1001), ('cont', 0x1001), ('obj', 0x1001), ('uid', 1)):
                nxt = first
                for h in after.docs[d][k]:
                    if is_reserved(k, before.els[h]['id']) or is_silent(k, before.els[h]['id']):
                        continue
                    if after.els[h]['id'] != (0, nxt, 0):
                        out.append(('reassign-not-dense', '`%s`: %s got %s, expected value %d' % (op, h, after.els[h]['id'], nxt)))
                        break
                    nxt += 1
            per = {}
            for h in after.docs[d]['pack']:
                if is_reserved('pack', before.els[h]['id']):
                    continue
                td = after.els[h]['td']
                want = per.get(td, 0x1001)
                if after.els[h]['id'] != (td, want, 0):
                    out.append(('reassign-not-dense', '`%s`: pack format %s got %s, expected (%d, %d)' % (op, h, after.els[h]['id'], td, want)))
                    break
                per[td] = want + 1
            for h in after.docs[d]['stream']:
                e = after.els[h]
                ch = e['refs'].get('streamchan')
                if not ch or is_reserved('stream', before.els[h]['id']):
                    continue
                c = after.els[ch[0]]
                if e['id'][0] != c['td'] or is_undefined('stream', e['id']) or is_reserved('stream', e['id']):
                    out.append(('reassign-stream', '`%s`: stream format %s got %s, its channel format has type %s' % (op, h, e['id'], c['td'])))
                n = 1
                for tr in e['refs'].get('streamtrack', []):
                    if is_reserved('track', before.els[tr]['id']):
                        continue
                    if after.els[tr]['id'] != (e['id'][0], e['id'][1], n):
                        out.append(('reassign-track', '`%s`: track format %s got %s, expected %s' % (op, tr, after.els[tr]['id'], (e['id'][0], e['id'][1], n))))
                    n += 1
        # idempotence: two consecutive successful reassignIds
        seq = snaps_with_prev(ops)
        for (op1, r1, b1, a1), (op2, r2, b2, a2) in zip(seq, seq[1:]):
            if op1.startswith('reassign') and op2 == op1 and r1 == 'ok' and r2 == 'ok' and b2 is not None \
                    and b2.key() == a1.key() and a1.key() != a2.key():
                if not (oracle_wf(a1) or oracle_sync(a1)):
                    out.append(('reassign-not-idempotent', 'the second `%s` changed the document' % op2))
        return out


def oracle_uniq_reserved(s, d):
    """Reserved IDs shared by two elements of one kind make reassignIds' set() calls ambiguous: outside C14."""
    return []


def referenced_from(s, d, h):
    return any(e['parent'] == d and any(h in l for l in e['refs'].values()) for e in s.els.values())


def spec_routes(s, p):
    """All programme -> content -> object(+) -> pack(+) -> channel paths, computed from the snapshot alone."""
    out = []

    def from_pack(pk, path, seen):
        path = path + [pk]
        for c in s.els[pk]['refs'].get('packchan', []):
            out.append(path + [c])
        for q in s.els[pk]['refs'].get('packpack', []):
            if q not in seen:
                from_pack(q, path, seen | {q})

    def from_obj(o, path, seen):
        path = path + [o]
        for pk in s.els[o]['refs'].get('objpack', []):
            from_pack(pk, path, {pk})
        for q in s.els[o]['refs'].get('objobj', []):
            if q not in seen:
                from_obj(q, path, seen | {q})
    for c in s.els[p]['refs'].get('progcont', []):
        for o in s.els[c]['refs'].get('contobj', []):
            from_obj(o, [p, c], {o})
    return out


class C18(Base):
    rule = ('random acyclic graphs over programmes, contents, nested objects, nested pack formats and channel formats '
            '(diamonds, shared sub-graphs, empty branches), route tracing from every programme; the expected path set is '
            'enumerated independently from the snapshot; non-trivial = distinct histories with a trace returning two or more routes')
    gen_args = dict(kinds=['prog', 'cont', 'obj', 'pack', 'chan'],
                    extra_ops={k: heapgen.EXTRA[k] for k in ('trace', 'simple')},
                    weights=dict(addref=60, trace=14, add=6, remove=3, rmref=4, setref=0, unsetref=0, setid=2, silent=0, lookup=0, new=3, clearrefs=2))

    @classmethod
    def gen(cls, ctx):
        n = cls.ncases_quick if ctx.quick() else cls.ncases_thorough
        out = []
        for _ in range(n):
            sizes = dict(prog=ctx.rng.randrange(1, 3), cont=ctx.rng.randrange(1, 4), obj=ctx.rng.randrange(2, 6),
                         pack=ctx.rng.randrange(2, 6), chan=ctx.rng.randrange(1, 5))
            out.append(heapgen.gen_history(ctx.rng, nops=ctx.rng.choice([15, 35, 50]), pool_sizes=sizes, **cls.gen_args))
        return out

    @staticmethod
    def nontrivial(ops):
        return any(op.startswith('trace') and r.count('|') >= 1 for op, r, _s in ops)

    @staticmethod
    def oracle(case, ops):
        out = []
        for op, r, before, after in snaps_with_prev(ops):
            t = op.split()
            if t[0] != 'trace' or before is None or not r.startswith('ok routes'):
                continue
            if oracle_acyclic(before):
                continue
            body, _, eq = r[len('ok routes ['):].rpartition('] eq=')
            if eq != '1':
                out.append(('route-equality', '`%s`: a route rebuilt from the same elements does not compare equal or has a different hash' % op))
            got = [x.split('>') for x in body.split('|')] if body else []
            want = spec_routes(before, t[1])
            if sorted(got) != sorted(want):
                missing = [w for w in want if w not in got]
                extra = [g for g in got if g not in want]
                out.append(('routes-differ', '`%s`: missing %s, unexpected %s, %d returned for %d paths'
                            % (op, missing[:2], extra[:2], len(got), len(want))))
        return out


def block_rows(e):
    """[(rtime Fraction, dur Fraction or None, raw dur text)] of the vector of the channel format's own type."""
    if not e['extra'].get('times'):
        return []
    vecs = dict(v.split(':', 1) for v in e['extra']['times'].strip('{}').split(';') if v)
    v = vecs.get(str(e['td']))
    rows = []
    if v:
        for b in v.split(','):
            rt, du = b.split('+')
            rows.append((tm_frac(rt), tm_frac(du), du))
    return rows


def frac_str(fr, style):
    """A Fraction of seconds as 'ns:' (truncated to whole nanoseconds) or 'fr:n/d'."""
    if style == 'ns':
        return 'ns:%d' % (fr.numerator * 10 ** 9 // fr.denominator)
    if style == 'fr':
        return 'fr:%d/%d' % (fr.numerator, fr.denominator)
    d = style          # a given denominator
    return 'fr:%d/%d' % (fr.numerator * d // fr.denominator, d)


def scene_c16(rng):
    """A structured, mostly valid scene: programmes -> contents -> (nested) objects -> (nested) packs -> channel
    formats with block timelines, decimal and fractional times, durations that are absent / right in another
    representation / a truncated decimal of the right fraction / wrong."""
    L = ['newdoc d0', 'newdoc d1']
    n = [0]

    def fresh():
        n[0] += 1
        return 'h%d' % n[0]
    unit = rng.choice([Fraction(1, 3), Fraction(1, 3), Fraction(1, 48000) * 16000, Fraction(1001, 30000) * 10, Fraction(1, 2), Fraction(1)])
    total_units = rng.choice([6, 9, 12, 30])
    total = unit * total_units
    chans = []
    for _ in range(rng.randrange(1, 4)):
        c = fresh()
        td = rng.choice([1, 2, 3, 3, 4, 5])
        L.append('new %s chan %d' % (c, td))
        nb = rng.randrange(1, 6)
        cuts = sorted(rng.sample(range(1, total_units), min(nb - 1, total_units - 1))) if nb > 1 else []
        starts = [0] + cuts
        style = rng.choice(['ns', 'fr', 'fr', 48000 * unit.denominator])
        for i, st in enumerate(starts):
            nxt = (starts[i + 1] if i + 1 < len(starts) else total_units)
            right = unit * (nxt - st)
            r = rng.random()
            if r < 0.35:
                du = '-'
            elif r < 0.55:
                du = frac_str(right, 'fr')
            elif r < 0.8:
                du = frac_str(right, 'ns')      # a decimal that may be a truncation of the right fraction
            else:
                du = frac_str(right + unit, 'fr')
            rt = '-' if st == 0 and rng.random() < 0.5 else frac_str(unit * st, style)
            L.append('block %s %d 0 0 0 %s %s' % (c, td, rt, du))
        chans.append(c)
    packs = []
    for _ in range(rng.randrange(1, 3)):
        p = fresh()
        L.append('new %s pack 3' % p)
        for c in rng.sample(chans, rng.randrange(1, len(chans) + 1)):
            L.append('addref packchan %s %s' % (p, c))
        if packs and rng.random() < 0.3:
            L.append('addref packpack %s %s' % (p, rng.choice(packs)))
        packs.append(p)
    objs = []
    for _ in range(rng.randrange(1, 4)):
        o = fresh()
        L.append('new %s obj' % o)
        L.append('addref objpack %s %s' % (o, rng.choice(packs)))
        if objs and rng.random() < 0.3:
            L.append('addref objobj %s %s' % (o, rng.choice(objs)))
        r = rng.random()
        if r < 0.25:
            L.append('settimes %s - %s' % (o, frac_str(total, rng.choice(['ns', 'fr']))))
        elif r < 0.35:
            L.append('settimes %s - %s' % (o, frac_str(total - unit, 'fr')))
        objs.append(o)
    progs = []
    for _ in range(rng.choice([1, 1, 2, 2, 3])):
        pr = fresh()
        co = fresh()
        L += ['new %s prog' % pr, 'new %s cont' % co, 'addref progcont %s %s' % (pr, co)]
        for o in rng.sample(objs, rng.randrange(1, len(objs) + 1)):
            L.append('addref contobj %s %s' % (co, o))
        r = rng.random()
        if r < 0.5:
            L.append('settimes %s - %s' % (pr, frac_str(total, rng.choice(['ns', 'fr']))))
        elif r < 0.65:
            L.append('settimes %s %s %s' % (pr, frac_str(unit, 'fr'), frac_str(total + unit, 'fr')))
        elif r < 0.8:
            L.append('settimes %s - %s' % (pr, frac_str(total + unit, 'fr')))
        progs.append(pr)
    for pr in progs:
        L.append('add d0 %s' % pr)
    r = rng.random()
    flen = '-' if r < 0.4 else frac_str(total, rng.choice(['ns', 'fr'])) if r < 0.85 else frac_str(total + unit, 'fr')
    L += ['snapshot', 'fixdur d0 %s' % flen, 'snapshot', 'fixdur d0 %s' % flen, 'snapshot', 'end']
    return L


class C16(Base):
    ncases_thorough = 100000
    rule = ('scenes with programmes (with/without end), contents, nested objects with and without durations, shared and '
            'unshared channel formats of all five types with 1-6 blocks, decimal and fractional times, with and without a '
            'file length; the expected outcome is recomputed with exact fractions from the snapshot; non-trivial = distinct '
            'scenes on which updateBlockFormatDurations succeeded on a channel format with two or more blocks')
    gen_args = dict(kinds=['prog', 'cont', 'obj', 'pack', 'chan'],
                    extra_ops={k: heapgen.EXTRA[k] for k in ('block', 'settimes', 'fixdur', 'simple')},
                    weights=dict(block=40, settimes=14, addref=40, add=14, fixdur=8, remove=1, rmref=1, setref=0, unsetref=0, setid=1, silent=0, lookup=0, new=2, clearrefs=0))

    @classmethod
    def gen(cls, ctx):
        n = (cls.ncases_quick if ctx.quick() else cls.ncases_thorough) // 2
        out = [scene_c16(ctx.rng) for _ in range(n)]
        for _ in range(n):
            sizes = dict(prog=ctx.rng.randrange(1, 3), cont=ctx.rng.randrange(1, 3), obj=ctx.rng.randrange(1, 4),
                         pack=ctx.rng.randrange(1, 3), chan=ctx.rng.randrange(1, 4))
            c = heapgen.gen_history(ctx.rng, nops=ctx.rng.choice([25, 45]), pool_sizes=sizes, **cls.gen_args)
            c = [l for l in c if l != 'end']
            out.append(c + ['fixdur d0 %s' % ctx.rng.choice(['-', 'ns:10000000000', 'ns:20000000000', 'fr:10/1']), 'snapshot', 'end'])
        return out

    @staticmethod
    def nontrivial(ops):
        return any(op.startswith('fixdur') and r == 'ok' for op, r, _s in ops)

    @staticmethod
    def oracle(case, ops):
        out = []
        for op, r, before, after in snaps_with_prev(upto_first_exn(ops, allow=('Other',))):
            t = op.split()
            if t[0] != 'fixdur' or before is None or t[1] not in before.docs:
                continue
            if oracle_wf(before) or oracle_acyclic(before):
                continue
            d = t[1]
            flen = tm_frac(t[2])
            progs = before.docs[d]['prog']
            eff = {}
            ambiguous = False
            cannot = not progs and flen is None
            for p in progs:
                pe = before.els[p]
                pstart, pend = tm_frac(pe['extra']['start']), tm_frac(pe['extra']['end'])
                if pend is not None:
                    pdur = pend - pstart
                    if flen is not None and pdur != flen:
                        ambiguous = True
                elif flen is not None:
                    pdur = flen
                else:
                    cannot = True
                    continue
                for route in spec_routes(before, p):
                    objs = [h for h in route if before.els[h]['kind'] == 'obj']
                    od = tm_frac(before.els[objs[-1]]['extra']['dur'])
                    dur = od if od is not None else pdur
                    c = route[-1]
                    if c in eff and eff[c] != dur:
                        ambiguous = True
                    eff.setdefault(c, dur)
            # channel formats sharing an ID are outside the statement (the implementation keys by ID)
            ids = [before.els[c]['id'] for c in eff]
            if len(set(ids)) != len(ids):
                continue
            in_class = all(1 <= before.els[c]['td'] <= 5 and block_rows(before.els[c]) for c in eff)
            if ambiguous or cannot:
                if not r.startswith('exn'):
                    out.append(('durations-ambiguity-accepted', '`%s` returned %s although the effective durations are '
                                'ambiguous or cannot be determined' % (op, r)))
                elif before.key() != after.key():
                    out.append(('durations-failed-but-changed', '`%s` threw but changed the document' % op))
                continue
            if not in_class:
                continue
            if r != 'ok':
                out.append(('durations-unexpected-exception', '`%s` threw %s on a scene inside the stated class' % (op, r)))
                continue
            for c, total in eff.items():
                rows_b, rows_a = block_rows(before.els[c]), block_rows(after.els[c])
                for i, (rt, du, raw) in enumerate(rows_a):
                    nxt = rows_a[i + 1][0] if i + 1 < len(rows_a) else total
                    if du is None or rt + du != nxt:
                        out.append(('durations-not-contiguous', '`%s`: block %d of %s has rtime %s + duration %s, next starts at %s'
                                    % (op, i, c, rt, du, nxt)))
                    if rows_b[i][1] is not None and rows_b[i][1] == nxt - rt and rows_b[i][2] != raw:
                        out.append(('durations-representation-changed', '`%s`: block %d of %s already had the right duration %s, rewritten as %s'
                                    % (op, i, c, rows_b[i][2], raw)))
                    if rows_b[i][0] != rt:
                        out.append(('durations-frame', '`%s` changed an rtime of %s' % (op, c)))
            for h, e in after.els.items():
                b = before.els.get(h)
                if b is None:
                    continue
                ex_a = {k: v for k, v in e['extra'].items() if k != 'times'}
                ex_b = {k: v for k, v in b['extra'].items() if k != 'times'}
                if (e['parent'], e['id'], e['refs'], e['td'], e['blocks'], ex_a) != (b['parent'], b['id'], b['refs'], b['td'], b['blocks'], ex_b):
                    out.append(('durations-frame', '`%s` changed %s beyond block durations' % (op, h)))
                if h not in eff and e['extra'].get('times') != b['extra'].get('times'):
                    out.append(('durations-frame', '`%s` changed the blocks of the unreachable channel format %s' % (op, h)))
        return out


SPECS.update({'C09': C09, 'C11': C11, 'C14': C14, 'C16': C16, 'C18': C18})
