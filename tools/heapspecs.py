"""heapspecs.py - per-property generators and oracles for the heap properties C03-C06, C12 (and the
parts of C11 visible in snapshots). Oracles look at libadm's output only."""
import heapgen
from heapcheck import (parse_snapshot, oracle_wf, oracle_sync, oracle_acyclic, oracle_uniq, oracle_idshape,
                       is_undefined, is_reserved, is_silent)

MUTATORS = ('add', 'remove', 'addref', 'rmref', 'setref', 'unsetref', 'clearrefs', 'setid')


def upto_first_exn(ops, allow=()):
    """Ops of the history up to (not including) the first exception raised by a mutating call."""
    out = []
    for op, r, snap in ops:
        if r.startswith('exn') and r.split()[1] not in allow:
            break
        out.append((op, r, snap))
    return out


def snaps_with_prev(ops):
    """[(op, result, before Snap or None, after Snap)] for ops directly followed by a snapshot."""
    res = []
    prev = None
    pending = None
    alias = {}
    npending = 0
    for op, r, snap in ops:
        t = op.split()
        if t[0] == 'silent' and r.startswith('ok h') and r.split()[1] != t[1]:
            alias[t[1]] = r.split()[1]       # getSilent returned the document's existing silent UID
        elif alias:
            op = ' '.join(alias.get(x, x) for x in t)
        if op == 'snapshot':
            cur = parse_snapshot(snap)
            if pending is not None:
                # `before` is meaningful only when exactly one op lies between the two snapshots
                res.append((pending[0], pending[1], prev if npending == 1 else None, cur))
                pending = None
            prev = cur
            npending = 0
        elif not op.startswith('new'):
            pending = (op, r)
            npending += 1
    return res


def tag_of(msg):
    if 'references' in msg and 'through' in msg:
        return 'ref-outside:' + msg.split('through ')[1].split(',')[0]
    if 'twice' in msg:
        return 'listed-twice'
    if 'is listed by' in msg:
        return 'two-documents'
    if 'has parent' in msg:
        return 'parent-mismatch'
    return 'other'


def silent_refs(rng, pool, docs):
    """A silent track UID referenced 1-3 times by one object (silent UIDs may repeat), then removed."""
    if not pool.by_kind['obj']:
        return None
    h = pool.fresh()
    pool.by_kind['uid'].append(h)
    o = rng.choice(pool.by_kind['obj'])
    d = rng.choice(docs)
    lines = ['silent %s %s' % (h, rng.choice([d, '-']))]
    for _ in range(rng.randrange(1, 4)):
        lines.append('addref objuid %s %s' % (o, h))
    if rng.random() < 0.35:     # the UID stops being silent while it is referenced several times
        lines.append('setid %s 0 %d 0' % (h, rng.choice([1, 2, 3, 7, 0x1001])))
    if rng.random() < 0.7:
        lines.append('add %s %s' % (d, o))
    if rng.random() < 0.7:
        lines.append('remove %s %s' % (d, h))
    return lines


class Base:
    what = 'extracted exec (heap model, plans regenerated from src/document.cpp) vs libadm API calls, full snapshots'
    assumptions = ['handles never expire (the driver keeps every shared_ptr alive); weak_ptr expiry is outside the model',
                   'histories are generated from a pool of at most a few elements per kind and two documents; the '
                   'theorems have no such bound',
                   '32-bit wrap-around of ID counters is outside the model and the generators']
    nops_quick, ncases_quick, nops_thorough, ncases_thorough = 30, 2500, 40, 60000
    gen_args = {}

    @classmethod
    def gen(cls, ctx):
        n = cls.ncases_quick if ctx.quick() else cls.ncases_thorough
        nops = cls.nops_quick if ctx.quick() else cls.nops_thorough
        return [heapgen.gen_history(ctx.rng, nops=ctx.rng.choice([nops // 3, nops, nops]), **cls.gen_args)
                for _ in range(n)]

    @staticmethod
    def nontrivial(ops):
        oks = [op.split()[0] for op, r, _s in ops if r.startswith('ok') and op != 'snapshot']
        return 'add' in oks and ('addref' in oks or 'setref' in oks)


class C03(Base):
    rule = ('random histories over a pool of 1-4 elements per kind and two documents, ops drawn from add/remove/'
            'addReference/setReference/removeReference/clearReferences/complementary/set(Id)/getSilent/lookup/create, '
            'snapshot after every op; non-trivial = distinct histories with a successful add and a successful reference edit')

    @staticmethod
    def oracle(case, ops):
        out = []
        good = upto_first_exn(ops)
        for op, r, before, after in snaps_with_prev(good):
            ms = oracle_wf(after)
            for m in ms:
                out.append((tag_of(m), 'after `%s`: %s' % (op, m)))
            if ms:
                break      # later snapshots inherit the broken state
        # a call linking two documents, or attaching to a second one, must throw
        for op, r, before, after in snaps_with_prev(ops[:len(good) + 1]):
            t = op.split()
            if before is None:
                continue
            if t[0] in ('addref', 'setref') and t[2] in before.els and t[3] in before.els:
                pa, pb = before.els[t[2]]['parent'], before.els[t[3]]['parent']
                if pa and pb and pa != pb and not r.startswith('exn'):
                    out.append(('cross-document-link-accepted', '`%s` links elements of %s and %s and returned %s' % (op, pa, pb, r)))
            if t[0] == 'add' and t[2] in before.els:
                p = before.els[t[2]]['parent']
                if p and p != t[1] and not r.startswith('exn'):
                    out.append(('second-document-accepted', '`%s`: element already belongs to %s, returned %s' % (op, p, r)))
        return out


class C04(Base):
    rule = ('as C03 with removals three times as frequent; every successful or unsuccessful remove is compared with the '
            'snapshot before it; non-trivial = distinct histories in which a remove returned true for a referenced element')
    gen_args = dict(weights=dict(remove=25, addref=30),
                    extra_ops=dict(silentrefs=(3, lambda rng, pool, docs: silent_refs(rng, pool, docs))))

    @staticmethod
    def nontrivial(ops):
        return any(op.startswith('remove') and r == 'ok true' for op, r, _s in ops)

    @staticmethod
    def oracle(case, ops):
        out = []
        good = upto_first_exn(ops)
        for op, r, before, after in snaps_with_prev(good):
            t = op.split()
            if t[0] != 'remove' or before is None:
                continue
            d, x = t[1], t[2]
            if oracle_wf(before):
                continue   # the guarantee is about reachable well-formed states; C03 reports the rest
            if r == 'ok false':
                if before.key() != after.key():
                    out.append(('remove-false-changed', '`%s` returned false but changed the state' % op))
                continue
            if r != 'ok true':
                continue
            if after.els[x]['parent'] is not None:
                out.append(('remove-parent', '`%s`: %s still has parent %s' % (op, x, after.els[x]['parent'])))
            for k, l in after.docs[d].items():
                if x in l:
                    out.append(('remove-listed', '`%s`: %s still listed' % (op, x)))
                if l != [y for y in before.docs[d][k] if y != x]:
                    out.append(('remove-frame-members', '`%s`: membership list %s changed: %s -> %s' % (op, k, before.docs[d][k], l)))
            for h, e in after.els.items():
                b = before.els.get(h)
                if b is None:
                    continue
                if e['parent'] == d:
                    for rk, l in e['refs'].items():
                        if x in l:
                            out.append(('remove-still-referenced:' + rk, '`%s`: %s still references %s through %s (%s)'
                                        % (op, h, x, rk, l)))
                if h == x:
                    for rk, l in e['refs'].items():
                        if l != b['refs'][rk] and rk not in ('trackstream', 'streamtrack'):
                            out.append(('remove-frame-own-refs', '`%s`: own references %s of %s changed' % (op, rk, x)))
                    if (e['id'], e['td'], e['blocks'], e['extra']) != (b['id'], b['td'], b['blocks'], b['extra']):
                        out.append(('remove-frame', '`%s`: %s itself changed' % (op, x)))
                    continue
                for rk, l in e['refs'].items():
                    want = [y for y in b['refs'][rk] if y != x] if b['parent'] == d else b['refs'][rk]
                    if l != want and not (x in l and b['parent'] == d):
                        out.append(('remove-frame-refs', '`%s`: references %s of %s changed from %s to %s'
                                    % (op, rk, h, b['refs'][rk], l)))
                if (e['parent'], e['id'], e['td'], e['blocks'], e['extra']) != (b['parent'], b['id'], b['td'], b['blocks'], b['extra']):
                    out.append(('remove-frame', '`%s`: %s changed' % (op, h)))
        return out


def least_free(used, pref):
    v = pref
    while v in used:
        v += 1
    return v


class C05(Base):
    rule = ('add/remove/set(Id)/lookup-heavy histories with pre-set IDs drawn from undefined, 0x1000, 0x1001, gaps, taken, '
            'reserved and top-of-field values, all type descriptors, track-format counters; non-trivial = distinct '
            'histories in which an add assigned or kept an ID next to an already listed element of the same kind')
    gen_args = dict(weights=dict(add=30, setid=25, remove=10, lookup=10, addref=10, setref=6))

    @staticmethod
    def nontrivial(ops):
        return sum(1 for op, r, _s in ops if op.startswith('add ') and r == 'ok true') >= 2

    @staticmethod
    def oracle(case, ops):
        out = []
        good = upto_first_exn(ops)
        broken = False
        for op, r, before, after in snaps_with_prev(good):
            if broken:
                break
            for m in oracle_uniq(after):
                out.append(('duplicate-id', 'after `%s`: %s' % (op, m)))
                broken = True
            t = op.split()
            if before is None:
                continue
            if t[0] == 'lookup':
                d, k, i = t[1], t[2], (int(t[3]), int(t[4]), int(t[5]))
                cands = [h for h in before.docs[d][k] if before.els[h]['id'] == i]
                if len(cands) <= 1:
                    want = 'ok ' + (cands[0] if cands else '-')
                    if r != want:
                        out.append(('lookup', '`%s` returned %s, the document holds %s' % (op, r, cands)))
            if t[0] == 'add' and r == 'ok true' and t[2] in before.els:
                d, h = t[1], t[2]
                for k, l in before.docs[d].items():
                    for y in l:
                        if after.els[y]['id'] != before.els[y]['id']:
                            out.append(('add-changed-existing-id', '`%s` changed the ID of %s from %s to %s'
                                        % (op, y, before.els[y]['id'], after.els[y]['id'])))
                k = before.els[h]['kind']
                bi, ai = before.els[h]['id'], after.els[h]['id']
                if k in ('prog', 'cont', 'obj', 'uid', 'pack', 'chan') and before.els[h]['parent'] is None:
                    if is_reserved(k, bi) or is_silent(k, bi):
                        want = bi
                    else:
                        ty = before.els[h]['td'] if k in ('pack', 'chan') else 0
                        used = {before.els[y]['id'][1] for y in before.docs[d][k]
                                if k not in ('pack', 'chan') or before.els[y]['id'][0] == ty}
                        pref = (1 if k == 'uid' else 0x1001) if is_undefined(k, bi) else bi[1]
                        want = (ty, least_free(used, pref), 0)
                    if ai != want:
                        out.append(('add-assigned-wrong-id', '`%s`: %s had ID %s, got %s, expected %s' % (op, h, bi, ai, want)))
        for op, r, before, after in snaps_with_prev(ops[:len(good) + 1]):
            t = op.split()
            if t[0] == 'setid' and before is not None and t[1] in before.els:
                e = before.els[t[1]]
                i = (int(t[2]), int(t[3]), int(t[4]))
                if e['parent'] and not is_undefined(e['kind'], i):
                    if any(before.els[y]['id'] == i for y in before.docs[e['parent']][e['kind']]) and r != 'exn IdInUse':
                        out.append(('setid-in-use-accepted', '`%s`: the ID is in use in %s but the call returned %s' % (op, e['parent'], r)))
        return out


class C06(Base):
    rule = ('reference-edit histories over 3-8 objects and pack formats (nested objects, complementary objects, nested '
            'packs; diamonds, chains, self-references, would-be cycles); non-trivial = distinct histories with at least '
            'two successful object/pack edges')
    gen_args = dict(kinds=['obj', 'pack', 'cont', 'chan'],
                    weights=dict(addref=60, add=10, remove=6, rmref=8, clearrefs=3, setref=0, unsetref=0, setid=2, silent=0, lookup=0, new=3))

    @classmethod
    def gen(cls, ctx):
        n = cls.ncases_quick if ctx.quick() else cls.ncases_thorough
        out = []
        for _ in range(n):
            sizes = dict(obj=ctx.rng.randrange(3, 9), pack=ctx.rng.randrange(3, 9), cont=1, chan=1)
            out.append(heapgen.gen_history(ctx.rng, nops=ctx.rng.choice([12, 30, 45]), pool_sizes=sizes, **cls.gen_args))
        return out

    @staticmethod
    def nontrivial(ops):
        return sum(1 for op, r, _s in ops if op.startswith('addref') and r == 'ok true') >= 2

    @staticmethod
    def oracle(case, ops):
        out = []
        good = upto_first_exn(ops, allow=('Cycle',))
        for op, r, before, after in snaps_with_prev(good):
            ms = oracle_acyclic(after)
            for m in ms:
                out.append(('cycle:' + m.split()[0], 'after `%s`: %s' % (op, m)))
            if ms:
                break
            if r == 'exn Cycle' and before is not None and before.key() != after.key():
                out.append(('cycle-exception-changed-state', '`%s` threw the cycle exception but changed the state' % op))
        return out


class C12(Base):
    rule = ('histories over 2-4 stream formats and 2-6 track formats (plus channel/pack formats and track UIDs): '
            'addReference/removeReference/clearReferences on the stream side, setReference/removeReference on the track '
            'side, re-pointing, add/remove of either side; non-trivial = distinct histories with two successful links')
    gen_args = dict(kinds=['stream', 'track', 'chan', 'pack', 'uid'],
                    rks=['streamtrack', 'trackstream', 'streamchan', 'uidtrack', 'streampack'],
                    weights=dict(addref=25, setref=25, rmref=10, unsetref=8, clearrefs=8, add=15, remove=10, setid=2, silent=0, lookup=0, new=2))

    @classmethod
    def gen(cls, ctx):
        n = cls.ncases_quick if ctx.quick() else cls.ncases_thorough
        out = []
        for _ in range(n):
            sizes = dict(stream=ctx.rng.randrange(2, 5), track=ctx.rng.randrange(2, 7), chan=1, pack=1, uid=1)
            out.append(heapgen.gen_history(ctx.rng, nops=ctx.rng.choice([10, 25, 40]), pool_sizes=sizes, **cls.gen_args))
        return out

    @staticmethod
    def nontrivial(ops):
        return sum(1 for op, r, _s in ops if (op.startswith('addref streamtrack') and r == 'ok true')
                   or (op.startswith('setref trackstream') and r == 'ok')) >= 2

    @staticmethod
    def oracle(case, ops):
        out = []
        # C12 is stated for any sequence of public calls: a call that throws is one of them
        for op, r, before, after in snaps_with_prev(ops):
            ms = oracle_sync(after)
            for m in ms:
                t = op.split()
                out.append(('unsynchronised-after:' + t[0] + (':' + t[1] if t[0] in ('clearrefs', 'rmref', 'unsetref', 'addref', 'setref') else ''),
                            'after `%s`: %s' % (op, m)))
            if ms:
                break
        return out


SPECS = {'C03': C03, 'C04': C04, 'C05': C05, 'C06': C06, 'C12': C12}
