"""translate_statics.py - StaticsGen.v: inventory of objects with static storage duration in libadm's own
sources (src/**, include/**, cmake/embedded_resource.cpp.in): `static` / `thread_local` objects at class,
function and namespace scope, and namespace-scope variable definitions.  Each entry records whether the
object is immutable after initialisation (const / constexpr).  C20's theorem requires all of them to be."""
import os
import re

from translate import strip_comments, coq_str

SKIP_START = re.compile(r'^(using|typedef|template|class|struct|enum|union|namespace|extern|friend|return|if|for|while|'
                        r'switch|case|default|public|private|protected|#|else|do|throw|static_assert|delete|new)\b')


def blank_strings(src):
    """Replace the contents of string/char literals by spaces (keeps lengths), so braces inside do not count."""
    out = []
    i = 0
    n = len(src)
    while i < n:
        c = src[i]
        if c == '"' or c == "'":
            q = c
            j = i + 1
            while j < n and src[j] != q:
                if src[j] == '\\':
                    j += 1
                j += 1
            out.append(q + ' ' * max(0, j - i - 1) + q)
            i = j + 1
        else:
            out.append(c)
            i += 1
    return ''.join(out)


def top_level_statements(src):
    """Yield (scope, text) for each statement; scope is the list of enclosing block heads
    ('namespace', 'class', 'function', 'other')."""
    stack = []
    cur = []
    paren = 0
    i = 0
    n = len(src)
    while i < n:
        c = src[i]
        if c == '(':
            paren += 1
            cur.append(c)
        elif c == ')':
            paren -= 1
            cur.append(c)
        elif c == '{' and paren == 0:
            head = ''.join(cur).strip()
            head1 = re.sub(r'\s+', ' ', head)
            is_ns = bool(re.match(r'^(inline\s+)?namespace\b', head1) or re.match(r'^extern\s+"C"', head1))
            is_class = bool(re.match(r'^(template\s*<.*?>\s*)*(class|struct|union|enum)\b', head1))
            is_func = bool(re.search(r'\)\s*(const|noexcept|override|final|->\s*[\w:<>,\s&*]+|\s)*(:\s*[^{};]*)?$', head1))
            is_ctrl = bool(re.search(r'\b(else|do|try)\s*$', head1))
            # brace initialiser of a variable: `T name{...};` or `= {...}` : keep inside the statement
            if head1 and not (is_ns or is_class or is_func or is_ctrl) and re.search(r'(=|[\w>\]])\s*$', head1):
                depth = 1
                j = i + 1
                while j < n and depth:
                    if src[j] == '{':
                        depth += 1
                    elif src[j] == '}':
                        depth -= 1
                    j += 1
                cur.append(src[i:j])
                i = j
                continue
            kind = 'namespace' if is_ns else 'class' if is_class else 'function' if is_func else 'other'
            stack.append(kind)
            cur = []
        elif c == '}' and paren == 0:
            if stack:
                stack.pop()
            cur = []
        elif c == ';' and paren == 0:
            text = re.sub(r'\s+', ' ', ''.join(cur)).strip()
            if text:
                yield list(stack), text
            cur = []
        else:
            cur.append(c)
        i += 1


FUNCTION_ALIASES = set()


def shares_mutable(head):
    """A pointer, smart pointer or reference wrapper whose pointee is not const: the object it leads to can be
    changed through it however const the handle itself is (static const std::shared_ptr<Document>)."""
    m = re.search(r'(shared_ptr|unique_ptr|weak_ptr|reference_wrapper)\s*<\s*([^<>]*(?:<[^<>]*>)?[^<>]*)>', head)
    if m and not re.search(r'\bconst\b', m.group(2)):
        return True
    m = re.search(r'([\w:<>]+)\s*\*', head)
    if m and m.group(1) in FUNCTION_ALIASES:
        return False             # a pointer to a function
    if m and not re.search(r'\bconst\s+[\w:<>]+\s*\*|[\w:<>]+\s+const\s*\*', head):
        return True
    return False


FUNC_DECL = re.compile(r'^[\w:<>,\s&*~\[\]]+?\b[\w:~]+\s*\((?:[^()]|\([^()]*\))*\)\s*(const|noexcept|override|final|=\s*(0|default|delete)|\s)*$')


def looks_like_function(text):
    """`R name(T a, U b)` as opposed to `T name(expr, "literal")`."""
    t = re.sub(r'\b(static|inline|constexpr|virtual|explicit|ADM_EXPORT\w*|friend|extern)\b', '', text).strip()
    m = re.match(r'^(.*?)\b([\w:~]+|operator\s*[^\s(]+)\s*\((.*)\)\s*(const|noexcept|override|final|=\s*(0|default|delete)|\s)*$', t)
    if not m:
        return False
    args = m.group(3).strip()
    if args == '' or args == 'void':
        return True
    # literals in the argument list mean a constructor call, i.e. an object definition
    if re.search(r'"|\'|^\s*\d|,\s*\d|\bnew\b', args):
        return False
    # parameter declarations: each piece ends with an identifier or is a type
    return all(re.search(r'[\w>&*\]]\s*(=.*)?$', a.strip()) and not re.search(r'^\s*[\w.]+\s*$', a.strip()) or
               re.match(r'^\s*(const\s+)?[\w:]+(<.*>)?\s*[&*]*\s*$', a.strip()) for a in split_args(args))


def split_args(s):
    parts, depth, cur = [], 0, []
    for c in s:
        if c in '<({[':
            depth += 1
        elif c in '>)}]':
            depth -= 1
        if c == ',' and depth == 0:
            parts.append(''.join(cur))
            cur = []
        else:
            cur.append(c)
    parts.append(''.join(cur))
    return parts


def scan_file(path, rel):
    src = blank_strings(strip_comments(open(path, encoding='utf-8', errors='replace').read()))
    # drop preprocessor lines
    src = re.sub(r'^\s*#.*$', '', src, flags=re.M)
    FUNCTION_ALIASES.clear()
    FUNCTION_ALIASES.update(re.findall(r'using\s+(\w+)\s*=\s*decltype\s*\(\s*\w+\s*\)\s*;', src))
    FUNCTION_ALIASES.update(re.findall(r'using\s+(\w+)\s*=\s*[^;=]*\([^;]*\)\s*;', src))
    found = []
    for scope, text in top_level_statements(src):
        if re.search(r'\b(static|thread_local)\b', text) and not re.search(r'\bstatic_(cast|assert|visitor)\b', text):
            if looks_like_function(text):
                continue
            head0 = text.split('=')[0].split('(')[0].split('{')[0]
            is_const = bool(re.search(r'\b(const|constexpr)\b', head0)) and not shares_mutable(head0)
            found.append((rel, text[:160], is_const, 'static'))
            continue
        if all(s == 'namespace' for s in scope) and rel.endswith(('.cpp', '.cpp.in')):
            if SKIP_START.match(text) or looks_like_function(text):
                continue
            if re.match(r'^[\w:<>,\s&*]+\s+[\w:]+\s*(=|\{|\(|$)', text) and not text.endswith(')'):
                head = text.split('=')[0].split('{')[0]
                if re.search(r'\bextern\b', head):
                    continue
                is_const = bool(re.search(r'\b(const|constexpr)\b', head)) and not shares_mutable(head)
                found.append((rel, text[:160], is_const, 'namespace-scope'))
    return found


def gen_statics(repo):
    entries = []
    roots = [os.path.join(repo, 'src'), os.path.join(repo, 'include')]
    for root in roots:
        for dp, _dn, files in os.walk(root):
            for fn in sorted(files):
                if fn.endswith(('.cpp', '.hpp')):
                    p = os.path.join(dp, fn)
                    entries += scan_file(p, os.path.relpath(p, repo))
    emb = os.path.join(repo, 'cmake', 'embedded_resource.cpp.in')
    if os.path.exists(emb):
        src = open(emb).read()
        # the generated arrays are `const unsigned char name[] = {...}` (cmake/embed_resource.cmake)
        cm = os.path.join(repo, 'cmake', 'embed_resource.cmake')
        txt = open(cm).read() if os.path.exists(cm) else ''
        m = re.search(r'(const\s+)?(unsigned\s+)?char\s+\S*\[\]', txt)
        entries.append(('cmake/embed_resource.cmake', (m.group(0) if m else 'embedded byte array: declaration not found'),
                        bool(m and m.group(1)), 'embedded-resource'))
    entries.sort()
    lines = ['(* GENERATED by tools/translate_statics.py - objects with static storage duration in libadm *)',
             'From Adm Require Import Base.Util.', 'Local Open Scope N_scope.', '',
             '(* (file, declaration, immutable after initialisation) *)',
             'Definition statics : list (list N * list N * bool) := [']
    lines.append(';\n'.join('  (%s, %s, %s)' % (coq_str(f), coq_str(t), 'true' if c else 'false') for f, t, c, _k in entries))
    lines += ['].', '']
    stats = dict(count=len(entries), mutable=[(f, t) for f, t, c, _k in entries if not c],
                 by_kind={k: sum(1 for e in entries if e[3] == k) for k in set(e[3] for e in entries)})
    return '\n'.join(lines), stats


GENERATORS = {'StaticsGen.v': gen_statics}
