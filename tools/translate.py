#!/usr/bin/env python3
"""translate.py - regenerate the source-derived parts of the Rocq model from /repo.

Usage: translate.py <repo> <outdir>

Writes coq/gen/*.v.  A file is rewritten only when its content changes, so that
`make` does not recompile needlessly.  The translator fails closed: a statement
or declaration it does not recognise is emitted as an `Unrecognised` row (or the
generator aborts with a non-zero exit status), which no verified checker accepts.
Every generator returns (text, stats) and the stats are written to
<outdir>/translate_stats.json for the evidence files.
"""
import json
import os
import re
import sys

sys.path.insert(0, os.path.dirname(os.path.abspath(__file__)))


def strip_comments(src):
    """Remove // and /* */ comments, keeping string and char literals intact."""
    out = []
    i = 0
    n = len(src)
    while i < n:
        c = src[i]
        if c == '"' or c == "'":
            q = c
            j = i + 1
            while j < n and src[j] != q:
                if src[j] == '\\':
                    j += 1
                j += 1
            out.append(src[i:j + 1])
            i = j + 1
        elif src.startswith('//', i):
            j = src.find('\n', i)
            if j < 0:
                j = n
            i = j
        elif src.startswith('/*', i):
            j = src.find('*/', i + 2)
            if j < 0:
                j = n - 2
            out.append(' ')
            i = j + 2
        else:
            out.append(c)
            i += 1
    return ''.join(out)


def read(repo, rel):
    with open(os.path.join(repo, rel), encoding='utf-8', errors='replace') as f:
        return f.read()


def coq_str(s):
    """A byte string as a Coq list of N literals."""
    return '[' + '; '.join(str(b) for b in s.encode('utf-8')) + ']%N'


def write_if_changed(path, text):
    old = None
    if os.path.exists(path):
        with open(path) as f:
            old = f.read()
    if old != text:
        with open(path, 'w') as f:
            f.write(text)
        return True
    return False


# --------------------------------------------------------------------------
# NamedType validators (include/adm/**/*.hpp)
# --------------------------------------------------------------------------

def scan_named_types(repo):
    """Every `using X = detail::NamedType<T, Tag[, Validator]>` in the public headers.
    Returns {name: (value_type, validator_text_or_None)}."""
    res = {}
    inc = os.path.join(repo, 'include', 'adm')
    for root, _dirs, files in os.walk(inc):
        for fn in sorted(files):
            if not fn.endswith('.hpp'):
                continue
            src = strip_comments(open(os.path.join(root, fn), encoding='utf-8', errors='replace').read())
            for m in re.finditer(r'using\s+(\w+)\s*=\s*(?:adm::)?detail::NamedType<', src):
                name = m.group(1)
                i = m.end()
                depth = 1
                j = i
                while j < len(src) and depth:
                    if src[j] == '<':
                        depth += 1
                    elif src[j] == '>':
                        depth -= 1
                    j += 1
                args = split_top(src[i:j - 1])
                vt = args[0].strip()
                val = args[2].strip() if len(args) > 2 else None
                res[name] = (vt, re.sub(r'\s+', '', val) if val else None)
    return res


def split_top(s):
    """Split a template argument list at top-level commas."""
    parts = []
    depth = 0
    cur = []
    for c in s:
        if c in '<({':
            depth += 1
        elif c in '>)}':
            depth -= 1
        if c == ',' and depth == 0:
            parts.append(''.join(cur))
            cur = []
        else:
            cur.append(c)
    parts.append(''.join(cur))
    return parts


def struct_bodies(src, pattern):
    """Yield (match, body) for every `pattern {` ... matching `}` (brace matched, strings skipped)."""
    for m in re.finditer(pattern + r'\s*\{', src):
        i = m.end()
        depth = 1
        j = i
        while j < len(src) and depth:
            c = src[j]
            if c == '"' or c == "'":
                q = c
                j += 1
                while j < len(src) and src[j] != q:
                    if src[j] == '\\':
                        j += 1
                    j += 1
            elif c == '{':
                depth += 1
            elif c == '}':
                depth -= 1
            j += 1
        yield m, src[i:j - 1]


def validator_range(val):
    """RangeValidator<lo,hi> -> (lo, hi); None for no validator; 'unknown' otherwise."""
    if val is None:
        return None
    m = re.fullmatch(r'(?:adm::)?detail::RangeValidator<(-?\d+),(-?\d+)>', val)
    if m:
        return (int(m.group(1)), int(m.group(2)))
    return 'unknown'


# --------------------------------------------------------------------------
# IdTraits / IdSection specialisations
# --------------------------------------------------------------------------
ID_FILES = [
    'src/elements/audio_programme_id.cpp', 'src/elements/audio_content_id.cpp',
    'src/elements/audio_object_id.cpp', 'src/elements/audio_pack_format_id.cpp',
    'src/elements/audio_channel_format_id.cpp', 'src/elements/audio_block_format_id.cpp',
    'src/elements/audio_stream_format_id.cpp', 'src/elements/audio_track_format_id.cpp',
    'src/elements/audio_track_uid_id.cpp', 'src/serial/frame_format_id.cpp',
    'src/serial/transport_id.cpp',
]


def gen_id_traits(repo):
    named = scan_named_types(repo)
    descs = []
    problems = []
    for rel in ID_FILES:
        src = strip_comments(read(repo, rel))
        traits = {}
        for m, body in struct_bodies(src, r'struct\s+IdTraits<\s*(\w+)\s*>'):
            fm = re.search(r'\bformat\s*\{\s*"([^"]*)"\s*\}', body)
            nm = re.search(r'\bname\s*\{\s*"([^"]*)"\s*\}', body)
            sm = re.search(r'\bsections\s*\{\s*(\d+)u?\s*\}', body)
            if not (fm and nm and sm):
                problems.append('%s: IdTraits<%s> not understood' % (rel, m.group(1)))
                continue
            traits[m.group(1)] = dict(format=fm.group(1), name=nm.group(1), sections=int(sm.group(1)), secs={})
        for m, body in struct_bodies(src, r'struct\s+IdSection<\s*(\w+)\s*,\s*(\d+)\s*>'):
            tm = re.search(r'using\s+type\s*=\s*(\w+)\s*;', body)
            im = re.search(r"\bidentifier\s*\{\s*'(.)'\s*\}", body)
            if not (tm and im) or m.group(1) not in traits:
                problems.append('%s: IdSection<%s,%s> not understood' % (rel, m.group(1), m.group(2)))
                continue
            traits[m.group(1)]['secs'][int(m.group(2))] = (tm.group(1), im.group(1))
        if not traits:
            problems.append('%s: no IdTraits specialisation found' % rel)
        for tname, t in traits.items():
            if sorted(t['secs']) != list(range(t['sections'])):
                problems.append('%s: IdTraits<%s> declares %d sections, found %s'
                                % (rel, tname, t['sections'], sorted(t['secs'])))
                continue
            secs = []
            for k in range(t['sections']):
                ty, ident = t['secs'][k]
                if ty not in named:
                    problems.append('%s: section type %s has no NamedType declaration' % (rel, ty))
                    rng = 'unknown'
                else:
                    rng = validator_range(named[ty][1])
                if rng == 'unknown':
                    problems.append('%s: validator of %s not understood' % (rel, ty))
                    rng = (1, 0)  # empty range: nothing parses, round-trip theorems fail
                secs.append((ident, ty, rng))
            descs.append((tname, t, secs, rel))
    lines = ['(* GENERATED by tools/translate.py from the IdTraits/IdSection specialisations - do not edit *)',
             'From Adm Require Import Codec.IdCodecDefs.', 'Local Open Scope N_scope.', '']
    for tname, t, secs, rel in descs:
        lines.append('(* %s: "%s" *)' % (rel, t['format']))
        seclist = '; '.join(
            '{| sec_ident := %d; sec_range := %s |}' % (
                ord(ident), 'None' if rng is None else 'Some (%d, %d)' % rng)
            for ident, ty, rng in secs)
        lines.append('Definition d_%s : fmt_desc :=' % tname)
        lines.append('  {| fd_name := %s; fd_format := %s;' % (coq_str(t['name']), coq_str(t['format'])))
        lines.append('     fd_sections := [%s] |}.' % seclist)
    lines.append('')
    lines.append('Definition all_formats : list fmt_desc := [%s].' % '; '.join('d_' + d[0] for d in descs))
    lines.append('Definition named_formats : list (list N * fmt_desc) := [%s].'
                 % '; '.join('(%s, d_%s)' % (coq_str(d[0]), d[0]) for d in descs))
    lines.append('Definition translate_problems : list (list N) := [%s].' % '; '.join(coq_str(p) for p in problems))
    lines.append('')
    stats = dict(descriptors=len(descs), problems=problems,
                 formats={d[0]: d[1]['format'] for d in descs})
    return '\n'.join(lines), stats


GENERATORS = {'IdTraitsGen.v': gen_id_traits}


def main():
    repo, outdir = sys.argv[1], sys.argv[2]
    os.makedirs(outdir, exist_ok=True)
    import importlib
    gens = dict(GENERATORS)
    for modname in ('translate_plans', 'translate_xml', 'translate_params', 'translate_statics', 'translate_layout', 'translate_nav'):
        try:
            mod = importlib.import_module(modname)
        except ImportError:
            continue
        gens.update(mod.GENERATORS)
    allstats = {}
    for fn, gen in gens.items():
        text, stats = gen(repo)
        changed = write_if_changed(os.path.join(outdir, fn), text + '\n')
        stats['rewritten'] = changed
        allstats[fn] = stats
    with open(os.path.join(outdir, 'translate_stats.json'), 'w') as f:
        json.dump(allstats, f, indent=1, sort_keys=True)
    return 0


if __name__ == '__main__':
    sys.exit(main())
