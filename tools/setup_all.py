"""setup_all.py - MANIFEST.setup_cmd: build libadm flavours, the whole Coq development from clean,
the extraction and both drivers, from files on disk only."""
import os
import sys

import vlib


def main():
    with vlib.Lock():
        for fl in ('plain', 'asan', 'tsan'):
            vlib.build_admdrv(fl)
        ok, out, stats = vlib.translate()
        if not ok:
            print(out)
            return 1
        vlib.coq_makefile()
        ok, out, cmd = vlib.coq_make(['all'], timeout=3000)
        print(out[-3000:])
        if not ok:
            print('setup: Coq development does not build completely (checks will report what is broken)')
        vlib.build_modeldrv()
    print('setup done')
    return 0


if __name__ == '__main__':
    sys.exit(main())
