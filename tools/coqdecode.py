"""coqdecode.py - turns the `list N` byte strings in Coq's printed terms back into text (for reports)."""
import re
import sys


def decode(text):
    text = re.sub(r'\s+', ' ', text)
    def rep(m):
        nums = re.findall(r'(\d+)%N', m.group(0))
        return '"' + ''.join(chr(int(n)) for n in nums) + '"'
    text = re.sub(r'\[(?:\d+%N;? ?)+\]', rep, text)
    return text.replace('[]', '""')


if __name__ == '__main__':
    print(decode(sys.stdin.read()))
