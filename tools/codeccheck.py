"""codeccheck.py - shared flow of the two codec properties (C10, C15): build, prove, extract,
run model and libadm on the same line-per-case file, apply the independent oracle to libadm,
second pass (parse what libadm formatted), report."""
import json
import os

import vlib


def load_corpus(prop):
    d = os.path.join(vlib.ROOT, 'corpus', prop)
    out = []
    if os.path.isdir(d):
        for fn in sorted(os.listdir(d)):
            for line in open(os.path.join(d, fn)):
                line = line.strip()
                if line and not line.startswith('#'):
                    out.append(line)
    return out


def run(ctx, spec):
    """spec: object with gen_cases(ctx)->(cases,hist), expected(case)->str|None (None = either outcome
    allowed), agrees(case,got,want)->bool, describe(case)->str, second_pass(case,impl_line)->(case2,want2)|None,
    gen_key (translator stats key or None), rule (str), assumptions (list), what (str)."""
    prop = ctx.prop
    with vlib.Lock():
        admdrv = vlib.build_admdrv('plain')
        tr_ok, tr_out, tr_stats = vlib.translate()
        proof = vlib.coq_check_props(prop)
        try:
            modeldrv = vlib.build_modeldrv()
        except vlib.CheckError as e:
            modeldrv = None
            ctx.notes.append('model does not build: %s' % str(e)[-800:])
    cases, hist = spec.gen_cases(ctx)
    corpus = load_corpus(prop)
    cases = corpus + cases
    impl = vlib.run_sharded(admdrv, 'codec', cases)
    impl_only = getattr(spec, 'impl_only', lambda c: False)
    mcases = [c for c in cases if not impl_only(c)]
    mres = iter(vlib.run_sharded(modeldrv, 'codec', mcases) if modeldrv else [None] * len(mcases))
    model = [None if impl_only(c) else next(mres) for c in cases]
    disagreements, oracle_fail, nontrivial = [], [], set()
    for c, i, m in zip(cases, impl, model):
        if impl_only(c):
            want = spec.self_check(c, i)
            if want is not None:
                oracle_fail.append((c, i, want))
            nontrivial.add(c)
            continue
        e = spec.expected(c)
        if e is not None and not spec.agrees(c, i, e):
            oracle_fail.append((c, i, e))
        if m is not None and i != m:
            disagreements.append((c, i, m))
        if i.startswith('ok'):
            nontrivial.add(c)
    second = []
    for c, i in zip(cases, impl):
        s = spec.second_pass(c, i)
        if s:
            second.append(s)
    back = vlib.run_sharded(admdrv, 'codec', [s[0] for s in second])
    for (c, want), got in zip(second, back):
        if got != want:
            oracle_fail.append((c, got, want))
    found = False
    seen = set()
    for c, got, want in oracle_fail:
        k = spec.classify(c) if hasattr(spec, 'classify') else c.split()[0]
        if k in seen or len(seen) >= 5:
            continue
        seen.add(k)
        found = True
        ctx.violation('%s gives %r, the property requires %r' % (spec.describe(c), got, want),
                      dict(kind='oracle', cases=[c], libadm=got, required=want), tag=None)
    if disagreements and not found:
        c, i, m = disagreements[0]
        ctx.violation('correspondence: model and libadm differ on %s (libadm %r, model %r) but the property '
                      'oracle finds no failing input' % (spec.describe(c), i, m),
                      dict(kind='correspondence', cases=[d[0] for d in disagreements[:20]],
                           correspondence=spec.what,
                           libadm=[d[1] for d in disagreements[:20]], model=[d[2] for d in disagreements[:20]]),
                      tag=None, found_input=False)
    if modeldrv is None and not found:
        ctx.violation('the executable model does not build, so the correspondence could not run',
                      dict(kind='model-build', notes=ctx.notes), found_input=False)
    if not tr_ok:
        ctx.violation('translator failed', dict(kind='translator', output=tr_out[-2000:]), found_input=False)
    vlib.proof_violations(ctx, proof, found)
    k = len(corpus)
    samples = [cases[k], cases[k + (len(cases) - k) // 2], cases[-2]] if len(cases) > k + 2 else cases[:3]
    ctx.coverage.update(
        evaluations=len(cases) + len(second), distinct_nontrivial=len(nontrivial), rule=spec.rule,
        samples=samples, input_distribution=hist, programs=len(cases), disagreements_checked=len(disagreements),
        oracle_failures=len(oracle_fail), second_pass_cases=len(second), corpus_cases=len(corpus),
        translator=tr_stats.get(spec.gen_key, {}) if spec.gen_key else {}, exhaustive=False,
        explanation='theorems are universally quantified; the explored part validates the model against libadm '
                    'and applies an independent oracle to libadm')
    ctx.assumptions += spec.assumptions
    return ctx.finish(proof)


def replay(path, spec, prop):
    r = json.load(open(path))
    cases = r.get('cases', [])
    if not cases:
        print('replay names a theorem or correspondence, not an input: %s' % r.get('kind'))
        return 1
    with vlib.Lock():
        admdrv = vlib.build_admdrv('plain')
    impl = vlib.run_sharded(admdrv, 'codec', cases, shards=1)
    bad = 0
    for c, i in zip(cases, impl):
        if getattr(spec, 'impl_only', lambda c: False)(c):
            want = spec.self_check(c, i)
            print('%s -> libadm %r%s' % (spec.describe(c), i, '' if want is None else ', required ' + want))
            bad += (want is not None)
            continue
        e = spec.expected(c)
        want = r.get('required', e)
        ok = (e is None and 'required' not in r) or spec.agrees(c, i, want if want is not None else i)
        print('%s -> libadm %r, required %r' % (spec.describe(c), i, want))
        bad += (not ok)
    if bad:
        print('VIOLATION property=%s replay=%s' % (prop, path))
    return 1 if bad else 0
