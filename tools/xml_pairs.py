"""xml_pairs.py - which format function is read back by which parse function(s), and the XML names handled by
hand-written loops on both sides.  Source of truth for coq/Xml/Pairs.v (regenerate with `python3 tools/xml_pairs.py`)
and for the call-closure stop set of tools/translate_xml.py."""
import os

PAIRS = [
    ('formatAudioProgramme', 'parseAudioProgramme'), ('formatAudioContent', 'parseAudioContent'),
    ('formatAudioObject', 'parseAudioObject'), ('formatAudioPackFormat', 'parseAudioPackFormat'),
    ('formatAudioChannelFormat', 'parseAudioChannelFormat'), ('formatAudioStreamFormat', 'parseAudioStreamFormat'),
    ('formatAudioTrackFormat', 'parseAudioTrackFormat'), ('formatAudioTrackUid', 'parseAudioTrackUid'),
    ('formatAudioObjectInteraction', 'parseAudioObjectInteraction'),
    ('formatBlockFormatDirectSpeakers', 'parseAudioBlockFormatDirectSpeakers'),
    ('formatBlockFormatObjects', 'parseAudioBlockFormatObjects'), ('formatBlockFormatHoa', 'parseAudioBlockFormatHoa'),
    ('formatBlockFormatBinaural', 'parseAudioBlockFormatBinaural'),
    ('formatChannelLock', 'parseChannelLock'), ('formatJumpPosition', 'parseJumpPosition'),
    ('formatObjectDivergence', 'parseObjectDivergence'), ('formatHeadphoneVirtualise', 'parseHeadphoneVirtualise'),
    ('formatLoudnessMetadata', 'parseLoudnessMetadata'), ('formatFrameFormat', 'parseFrameFormat'),
    ('formatTransportTrackFormat', 'parseTransportTrackFormat'),
]
# sub-structure formatters / parsers handed over as callbacks: groups of functions on either side
GROUPS = [
    (['formatPosition'], ['guessCartesianFlag', 'parseSphericalPosition', 'parseCartesianPosition']),
    (['formatSphericalSpeakerPosition', 'formatCartesianSpeakerPosition'],
     ['parseSpeakerPosition', 'parseSphericalSpeakerPosition', 'parseCartesianSpeakerPosition']),
    (['formatPositionOffset'], ['guessCartesianFlag', 'parseSphericalPositionOffset', 'parseCartesianPositionOffset']),
    (['formatFrequency'], ['parseFrequency']),
    (['formatGainInteractionRange'], ['parseGainInteractionRange']),
    (['formatPositionInteractionRange'], ['parsePositionInteractionRange']),
    (['formatLabel'], ['parseLabel']),
    (['formatNonDialogueContentKind', 'formatDialogueContentKind', 'formatMixedContentKind'], ['parseContentKind']),
    (['formatProfileList', 'formatProfile'], ['parseProfileList', 'parseProfile']),
    (['formatChangedIds', 'formatIdRef'], ['parseChangedIds', 'parseIdRef', 'addIdReferences']),
    (['formatFrameHeader'], ['parseFrameHeader']),
]
ALL_GROUPS = [([a], [b]) for a, b in PAIRS] + GROUPS
# XML names written / read by hand-written code on one side (loops over block formats, weak track format
# references, the changedIDs sub-tree) or documented as unsupported content (audioProgrammeReferenceScreen)
CUSTOM_NAMES = ['audioBlockFormat', 'changedIDs', 'audioTrackFormatIDRef', 'audioProgrammeReferenceScreen']


def cs(s):
    return '[' + '; '.join(str(b) for b in s.encode()) + ']'


def main():
    L = ['(* Xml/Pairs.v - which format function is read back by which parse function, and the XML names handled by',
         '   hand-written loops.  GENERATED from tools/xml_pairs.py (a hand-written list); a pair naming a function that is',
         '   missing from the regenerated tables makes the checks fail. *)',
         'From Adm Require Import Xml.Tables Xml.Compat gen.XmlTabGen.', 'Local Open Scope N_scope.', '',
         'Fixpoint assoc_tab {A} (k : list N) (l : list (list N * A)) : option A :=',
         "  match l with [] => None | (k', v) :: r => if str_eqb k k' then Some v else assoc_tab k r end.", '',
         'Definition pairs : list (list (list N) * list (list N)) := [']
    L.append(';\n'.join('  (* %s / %s *)\n  ([%s], [%s])' % (' '.join(a), ' '.join(b), '; '.join(cs(x) for x in a), '; '.join(cs(x) for x in b))
                        for a, b in ALL_GROUPS))
    L += ['].', '', 'Definition custom_names : list (list N) := [%s].' % '; '.join(cs(n) for n in CUSTOM_NAMES), '',
          'Definition is_custom (n : list N) : bool := existsb (str_eqb n) custom_names.', '',
          'Fixpoint assoc_all {A} (ks : list (list N)) (l : list (list N * list A)) : option (list A) :=',
          '  match ks with',
          '  | [] => Some []',
          "  | k :: ks' => match assoc_tab k l, assoc_all ks' l with Some a, Some b => Some (a ++ b) | _, _ => None end",
          '  end.', '',
          'Definition pair_tables (p : list (list N) * list (list N)) : option (list wrow * list prow) :=',
          '  match assoc_all (fst p) writer_tables, assoc_all (snd p) parser_tables with',
          '  | Some w, Some r => Some (filter (fun x => negb (is_custom (wname x))) w, filter (fun x => negb (is_custom (pname x))) r)',
          '  | _, _ => None', '  end.', '',
          'Definition all_pairs_present : bool := forallb (fun p => match pair_tables p with Some _ => true | None => false end) pairs.',
          'Definition all_w_p_compatible : bool :=',
          '  forallb (fun p => match pair_tables p with Some (w, r) => w_p_compatible w r | None => false end) pairs.',
          'Definition all_p_w_covered : bool :=',
          '  forallb (fun p => match pair_tables p with Some (w, r) => p_w_covered r w | None => false end) pairs.', '',
          'Definition all_lit_values_read : bool :=',
          '  forallb (fun p => match pair_tables p with Some (w, r) => lit_values_read w r | None => false end) pairs.',
          'Definition unread_literals : list (list (list N) * wrow) :=',
          '  flat_map (fun p => match pair_tables p with',
          '                     | Some (w, r) => map (fun x => (fst p, x)) (filter (fun x => negb (lit_read r x)) w)',
          '                     | None => [] end) pairs.', '',
          '(* the rows that fail, for reporting *)',
          'Definition unmatched_writer_rows : list (list (list N) * wrow) :=',
          '  flat_map (fun p => match pair_tables p with',
          '                     | Some (w, r) => map (fun x => (fst p, x)) (filter (fun x => negb (w_matched r x)) w)',
          '                     | None => [] end) pairs.',
          'Definition unmatched_parser_rows : list (list (list N) * prow) :=',
          '  flat_map (fun p => match pair_tables p with',
          '                     | Some (w, r) => map (fun x => (snd p, x)) (filter (fun x => negb (p_matched w x)) r)',
          '                     | None => [] end) pairs.', '']
    root = os.path.dirname(os.path.dirname(os.path.abspath(__file__)))
    open(os.path.join(root, 'coq', 'Xml', 'Pairs.v'), 'w').write('\n'.join(L))


if __name__ == '__main__':
    main()
