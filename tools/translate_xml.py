"""translate_xml.py - XmlTabGen.v: the writer and parser as tables, read statement by statement from
src/private/rapidxml_formatter.cpp, src/private/document_parser.cpp and src/serial/frame_header_parser.cpp.

Writer rows:  node.addXxx<Param[, Id]>(src, "xmlName"[, &customFormatter])
Parser rows:  parseAttribute / setOptionalAttribute / setOptionalElement / setOptionalMultiElement /
              addOptionalElements / addOptionalReferences / setOptionalReference <Param>(node, "xmlName", ...)
Every other statement of a scanned function is classified Glue / Check / Custom / Unrecognised; the
unrecognised ones are reported in xml_problems (the theorems require that list to be empty)."""
import re

from translate import read, strip_comments, coq_str
from translate_plans import split_statements, norm

W_KINDS = {'addAttribute': 'WAttr', 'addOptionalAttribute': 'WOptAttr', 'addElement': 'WElem',
           'addOptionalElement': 'WOptElem', 'addMultiElement': 'WMulti', 'addOptionalMultiElement': 'WOptMulti',
           'addElements': 'WElems', 'addVectorElements': 'WVector', 'addBaseElements': 'WBase',
           'addReference': 'WRef', 'addOptionalReference': 'WOptRef', 'addReferences': 'WRefs'}
P_KINDS = {'parseAttribute': 'PAttrReq', 'parseOptionalAttribute': 'PAttrOpt', 'setOptionalAttribute': 'PAttrOpt',
           'setOptionalElement': 'PElemOpt', 'parseOptionalElement': 'PElemOpt', 'addOptionalElement': 'PElemOpt',
           'setOptionalMultiElement': 'PMultiOpt', 'parseOptionalMultiElement': 'PMultiOpt', 'setMultiElement': 'PMultiReq',
           'addOptionalElements': 'PElems', 'addOptionalReferences': 'PRefs', 'setOptionalReference': 'PRef',
           'parseElement': 'PElemReq'}


def functions(src, name_re):
    """[(name, body)] of functions whose name matches name_re (definitions with a body)."""
    out = []
    for m in re.finditer(r'(?:[\w:<>,\s&*]+?)\b((?:\w+::)?(%s))\s*\(' % name_re, src):
        # find the end of the parameter list
        i = m.end()
        depth = 1
        while i < len(src) and depth:
            if src[i] == '(':
                depth += 1
            elif src[i] == ')':
                depth -= 1
            i += 1
        j = i
        while j < len(src) and src[j] in ' \n\tconst':
            j += 1
        if j >= len(src) or src[j] != '{':
            continue
        k = j + 1
        depth = 1
        while k < len(src) and depth:
            if src[k] == '{':
                depth += 1
            elif src[k] == '}':
                depth -= 1
            k += 1
        out.append((m.group(2), src[j + 1:k - 1]))
    return out


def flatten(body):
    """All statements of a body, descending into if/else/for blocks (the rows inside still count)."""
    out = []
    for st in split_statements(body):
        st_n = norm(st)
        m = re.match(r'^(if|for|while|else|switch)\b', st_n)
        if m or st_n.endswith('}'):
            # split head and blocks
            i = st.find('{')
            if i < 0:
                out.append(st_n)
                continue
            head = norm(st[:i])
            out.append('@head ' + head)
            # all brace blocks of the statement (if / else if / else)
            depth = 0
            start = None
            for k, c in enumerate(st):
                if c == '{':
                    if depth == 0:
                        start = k + 1
                    depth += 1
                elif c == '}':
                    depth -= 1
                    if depth == 0 and start is not None:
                        out += flatten(st[start:k])
                        tail = st[k + 1:]
                        mm = re.match(r'\s*(else(\s+if\s*\((?:[^()]|\([^()]*\))*\))?)\s*\{', tail)
                        if mm:
                            out.append('@head ' + norm(mm.group(1)))
                        start = None
        else:
            out.append(st_n)
    return out


NAME = r'(?:"([^"]*)"|(\w+))'      # a string literal or a variable holding the XML name
ROW_W = re.compile(r'^(?:[\w.]+?)\.(?:template )?(add\w+)<([\w:]+)(?:,\s*([\w:]+))?>\(\s*&?([\w().>\-<]+?),\s*' + NAME + r'(?:,\s*(.+))?\);$')
ROW_W2 = re.compile(r'^(?:[\w.]+?)\.(addElement|addMultiElement)\(\s*([\w.]+)(?:\.get<([\w:]+)>\(\))?,\s*' + NAME + r'(?:,\s*(.+))?\);$')
ROW_P = re.compile(r'^(?:(?:const )?auto&? (\w+) = |[\w:<>]+ (\w+) = )?(?:detail::)?(\w+)<([\w:]+)>\(\s*(\w+),\s*' + NAME + r'(?:,\s*(.+))?\);$')
ROW_PV = re.compile(r'^(?:(?:const )?auto&? \w+ = |[\w:<>]+ \w+ = |return )?(?:detail::)?(setValue|parseValue)<([\w:]+)>\(\s*(\w+)(?:,\s*(.+))?\);$')
HELPER_CALL = re.compile(r'\b(add\w*|setOptional\w+|setMulti\w+|parse\w*Attribute|parse\w*Element\w*|setValue|parseValue)\s*<')
CUSTOM_W = re.compile(r'^(?:detail::)?(addBlockTimeParameters|formatIdRef<\w+>|format\w+)\(')


def xmlname(lit, var):
    return lit if lit is not None else '$' + var


LIT_ATTR = re.compile(r'(?:\.addAttribute|formatMultiElementAttribute)\(\s*"([^"]*)",\s*"([^"]*)"\s*\)')


def writer_literals(st):
    """literal attributes written inside a statement (directly, in a lambda body, or through
    formatMultiElementAttribute): (name, value)"""
    return [('lit', 'WLitAttr', '', k, v) for k, v in LIT_ATTR.findall(st)]


def classify_writer(st):
    m = ROW_W.match(st)
    if m and m.group(1) in W_KINDS:
        custom = m.group(7)
        fn = re.findall(r'&?(?:detail::)?(format\w+)', custom) if custom else []
        return ('row', W_KINDS[m.group(1)], m.group(2).split('::')[-1], xmlname(m.group(5), m.group(6)), fn[0] if fn else ('lambda' if custom else ''))
    m = ROW_W2.match(st)
    if m:
        fn = re.findall(r'&?(?:detail::)?(format\w+)', m.group(6)) if m.group(6) else []
        return ('row', 'WElem' if m.group(1) == 'addElement' else 'WMulti', (m.group(3) or m.group(2)).split('::')[-1],
                xmlname(m.group(4), m.group(5)), fn[0] if fn else ('lambda' if m.group(6) else ''))
    m = re.match(r'^[\w.]+\.addAttribute\("([^"]*)",\s*"([^"]*)"\)', st)
    if m:
        return ('glue', '', '', '', '')         # reported by writer_literals
    m = re.match(r'^[\w.]+\.addAttribute\("([^"]*)",', st)
    if m:
        return ('lit', 'WLitAttr', '', m.group(1), '')
    m = re.search(r'\.addNode\("([^"]*)"\)', st)
    if m:
        return ('lit', 'WLitElem', '', m.group(1), '')
    m = re.match(r'^[\w.]+\.addElement\("([^"]*)",', st)
    if m:
        return ('lit', 'WLitElem', '', m.group(1), '')
    if re.match(r'^[\w.]+\.setValue\(', st):
        return ('lit', 'WValue', '', '', '')
    m = CUSTOM_W.match(st)
    if m:
        return ('row', 'WCustom', '', '', m.group(1))
    if HELPER_CALL.search(st) and not st.startswith('@head'):
        return ('unrecognised', '', '', '', st[:100])
    return ('glue', '', '', '', '')


INNER_P = re.compile(r'\b(\w+)<([\w:]+)>\(\s*(\w+),\s*"([^"]*)"(?:,\s*([^()]*))?\)')


def classify_parser(st):
    st = re.sub(r'\badm::(xml::)?', '', st)
    st = re.sub(r'^(\w+) = ', r'auto \1 = ', st) if re.match(r'^\w+ = (detail::)?\w+<', st) else st
    m = ROW_P.match(st)
    if m and m.group(3) in P_KINDS:
        rest = m.group(8) or ''
        fn = re.findall(r'&(\w+)', rest)
        return ('row', P_KINDS[m.group(3)], m.group(4).split('::')[-1], xmlname(m.group(6), m.group(7)), fn[-1] if fn else '')
    m = ROW_PV.match(st)
    if m:
        fn = re.findall(r'&(\w+)', m.group(4) or '')
        return ('row', 'PValue', m.group(2).split('::')[-1], '', fn[-1] if fn else '')
    if re.match(r'^(@head )?if\s*\(idMap_\.contains\(id\)\)$', st):
        return ('check', 'PDupCheck', '', '', '')
    if st.startswith('throw error::XmlParsingDuplicateId('):
        return ('check', 'PCheck', '', 'XmlParsingDuplicateId', '')
    if st.startswith('throw ') or re.match(r'^checkChannelType\(', st) or re.match(r'^(auto \w+ = )?checkFormat\(', st):
        return ('check', 'PCheck', '', '', '')
    if 'ChangedIdTraits<' in st or re.match(r'^(addIdReferences|parseIdRef)<', st):
        return ('row', 'PCustom', '', '', re.match(r'^(\w+)', st).group(1))
    m = INNER_P.search(st)
    if m and m.group(1) in P_KINDS and not st.startswith('@head'):
        fn = re.findall(r'&(\w+)', m.group(5) or '')
        return ('row', P_KINDS[m.group(1)], m.group(2).split('::')[-1], m.group(4), fn[-1] if fn else '')
    m = re.search(r'->first_attribute\(\s*"([^"]*)"\s*\)', st)
    if m:
        return ('row', 'PAttrOpt', '', m.group(1), '')
    m = re.search(r'\bfind(Element|Elements)\(\s*[\w.>\-()]+,\s*"([^"]*)"\s*\)', st)
    if m:
        return ('row', 'PElemOpt' if m.group(1) == 'Element' else 'PElems', '', m.group(2), '')
    if HELPER_CALL.search(st) and not st.startswith('@head'):
        return ('unrecognised', '', '', '', st[:100])
    return ('glue', '', '', '', '')


CMP_LIT = re.compile(r'==\s*(?:std::string\s*[({]\s*)?"([^"]*)"')


def parser_literals(st):
    """string literals a parsed value is compared with"""
    return [('row', 'PLit', '', v, '') for v in CMP_LIT.findall(st)]


KEYWORDS = {'if', 'for', 'while', 'switch', 'return', 'catch', 'sizeof', 'throw', 'else', 'do', 'defined'}


def closure_rows(tabs, bodies, stop=()):
    """For each function: its own rows followed by the rows of the functions it calls directly (not through
    a `&function` callback argument), transitively."""
    names = set(tabs)
    calls = {}
    for n, body in bodies.items():
        b = re.sub(r'&\s*(?:\w+::)*\w+', ' ', body)          # callbacks are sub-element tables of their own
        calls[n] = [c for c in re.findall(r'\b(\w+)\s*(?:<[^<>()]*>)?\s*\(', b) if c in names and c != n]
    out = {}
    for n in tabs:
        seen, order, stack = {n}, [n], list(calls.get(n, []))
        while stack:
            c = stack.pop(0)
            if c in seen or c in stop:
                continue
            seen.add(c)
            order.append(c)
            stack += calls.get(c, [])
        rows = []
        for c in order:
            rows += tabs[c]
        out[n] = rows
    return out


def gen_xml(repo):
    fsrc = strip_comments(read(repo, 'src/private/rapidxml_formatter.cpp'))
    psrc = strip_comments(read(repo, 'src/private/document_parser.cpp'))
    hsrc = strip_comments(read(repo, 'src/serial/frame_header_parser.cpp'))
    problems = []
    counts = dict(writer_rows=0, writer_literals=0, writer_glue=0, parser_rows=0, parser_checks=0, parser_glue=0)
    wt, wb, pt, pb = {}, {}, {}, {}
    for name, body in functions(fsrc, r'\w+'):
        if name in KEYWORDS or name in wt:
            continue
        rows = []
        for st in flatten(body):
            k = classify_writer(st)
            if k[0] in ('row', 'lit'):
                rows.append(k[1:])
                counts['writer_rows' if k[0] == 'row' else 'writer_literals'] += 1
            elif k[0] == 'glue':
                counts['writer_glue'] += 1
            else:
                problems.append('writer %s: %s' % (name, k[4]))
            for lit in writer_literals(st):
                rows.append(lit[1:])
                counts['writer_literals'] += 1
        wt[name] = rows
        wb[name] = body
    for src in (psrc, hsrc):
        for name, body in functions(src, r'\w+'):
            if name in KEYWORDS or name in pt or name in ('parse', 'DocumentParser', 'FrameHeaderParser'):
                continue
            rows = []
            for st in flatten(body):
                k = classify_parser(st)
                if k[0] in ('row', 'check'):
                    rows.append(k[1:])
                    counts['parser_rows' if k[0] == 'row' else 'parser_checks'] += 1
                elif k[0] == 'glue':
                    counts['parser_glue'] += 1
                else:
                    problems.append('parser %s: %s' % (name, k[4]))
                for lit in parser_literals(st):
                    rows.append(lit[1:])
            pt[name] = rows
            pb[name] = body
    # ---- reference resolution (C08): pending tables filled by the element parsers, tables resolved by parse() ----
    pending = []
    for name, body in pb.items():
        for m in re.finditer(r'\b(addOptionalReferences|setOptionalReference)<[\w:]+>\(\s*\w+,\s*"([^"]*)",\s*\w+,\s*(\w+),', body):
            pending.append((name, m.group(2), m.group(3)))
    mparse = re.search(r'DocumentParser::parse\(\)\s*\{', psrc)
    parse_body = ''
    if mparse:
        i = mparse.end()
        depth = 1
        while i < len(psrc) and depth:
            depth += {'{': 1, '}': -1}.get(psrc[i], 0)
            i += 1
        parse_body = psrc[mparse.end():i]
    else:
        problems.append('parser: DocumentParser::parse() not found')
    resolved = re.findall(r'\bresolve\w*\(\s*(\w+)\s*\)', parse_body)
    for m in re.finditer(r'for\s*\([^;)]*:\s*(\w+)\)\s*\{', parse_body):
        j = m.end()
        depth = 1
        while j < len(parse_body) and depth:
            depth += {'{': 1, '}': -1}.get(parse_body[j], 0)
            j += 1
        if 'throw error::XmlParsingUnresolvedReference' in parse_body[m.end():j]:
            resolved.append(m.group(1))      # hand-written resolution loop (complementary objects)
    dispatched = re.findall(r'add\((parse\w+)\(node\)\)', parse_body)
    hdr = strip_comments(read(repo, 'include/adm/private/document_parser.hpp'))
    resolvers = []
    for rn in ('resolveReferences', 'resolveReference', 'resolveTrackUidReferences'):
        bodies = [b for n, b in functions(hdr, rn) + functions(psrc, rn) if n == rn]
        resolvers.append((rn, bool(bodies) and all('throw error::XmlParsingUnresolvedReference' in b for b in bodies)))
    import xml_pairs
    wclosed = closure_rows(wt, wb, stop={x for a, _b in xml_pairs.ALL_GROUPS for x in a})
    pclosed = closure_rows(pt, pb, stop={x for _a, b in xml_pairs.ALL_GROUPS for x in b})
    wtabs = [(n, wclosed[n]) for n in wt if wclosed[n]]
    ptabs = [(n, pclosed[n]) for n in pt if pclosed[n]]

    def rows_coq(rows):
        return '[' + '; '.join('(%s, %s, %s, %s)' % (r[0], coq_str(r[1]), coq_str(r[2]), coq_str(r[3])) for r in rows) + ']'
    lines = ['(* GENERATED by tools/translate_xml.py - writer and parser tables (rows of a function followed by the',
             '   rows of the helper functions it calls) - do not edit *)',
             'From Adm Require Import Xml.Tables.', 'Local Open Scope N_scope.', '',
             'Definition writer_tables : list (list N * list wrow) := [']
    lines.append(';\n'.join('  (%s, %s)' % (coq_str(n), rows_coq(r)) for n, r in wtabs))
    lines += ['].', '', 'Definition parser_tables : list (list N * list prow) := [']
    lines.append(';\n'.join('  (%s, %s)' % (coq_str(n), rows_coq(r)) for n, r in ptabs))
    lines += ['].', '', '(* (parse function, IDRef element name, pending table) *)',
              'Definition pending_tables : list (list N * list N * list N) := [%s].'
              % '; '.join('(%s, %s, %s)' % (coq_str(a), coq_str(b), coq_str(c)) for a, b, c in pending),
              'Definition resolved_tables : list (list N) := [%s].' % '; '.join(coq_str(t) for t in resolved),
              '(* resolver function, and whether every definition of it throws XmlParsingUnresolvedReference *)',
              'Definition resolvers : list (list N * bool) := [%s].' % '; '.join('(%s, %s)' % (coq_str(n), 'true' if b else 'false') for n, b in resolvers),
              '(* element parsers dispatched by DocumentParser::parse() *)',
              'Definition dispatched_parsers : list (list N) := [%s].' % '; '.join(coq_str(t) for t in dispatched), '']
    lines += ['Definition xml_problems : list (list N) := [%s].' % '; '.join(coq_str(p) for p in problems), '']
    stats = dict(counts, pending_tables=len(pending), resolved_tables=len(resolved), dispatched=len(dispatched), writer_functions=len(wtabs), parser_functions=len(ptabs), problems=problems,
                 writer_names=[n for n, _ in wtabs], parser_names=[n for n, _ in ptabs])
    return '\n'.join(lines), stats


GENERATORS = {'XmlTabGen.v': gen_xml}
