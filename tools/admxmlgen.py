"""admxmlgen.py - grammar-based generator of ADM XML files, independent of libadm's writer (C02, C08, C07).
Every element, attribute and sub-element the parser reads can be produced (the coverage of the parser table's
XML names is reported by the checks); attribute order, optional white space, number and time syntax vary.

gen_file(rng) -> (xml_text, info) where info records the elements, their IDs and the reference sites, so that
C08 can inject faults at known places."""
import random

TYPES = {1: 'DirectSpeakers', 2: 'Matrix', 3: 'Objects', 4: 'HOA', 5: 'Binaural'}
FORMATS = {1: 'PCM'}


def esc(s):
    return s.replace('&', '&amp;').replace('<', '&lt;').replace('>', '&gt;').replace('"', '&quot;')


class Node:
    def __init__(self, name, attrs=None, kids=None, text=None):
        self.name, self.attrs, self.kids, self.text = name, list(attrs or []), list(kids or []), text

    def attr(self, k, v):
        if v is not None:
            self.attrs.append((k, v))
        return self

    def add(self, n):
        if n is not None:
            self.kids.append(n)
        return n

    def render(self, rng, depth=0, pretty=True):
        ind = ('\t' * depth) if pretty else ''
        nl = '\n' if pretty else ''
        attrs = list(self.attrs)
        if rng.random() < 0.3:
            rng.shuffle(attrs)
        a = ''.join(' %s=%s' % (k, ('"%s"' % esc(v)) if rng.random() < 0.9 or "'" in v else ("'%s'" % esc(v).replace('&quot;', '"')))
                    for k, v in attrs)
        if not self.kids and self.text is None:
            return '%s<%s%s/>%s' % (ind, self.name, a, nl)
        if not self.kids:
            return '%s<%s%s>%s</%s>%s' % (ind, self.name, a, esc(self.text), self.name, nl)
        body = ''.join(k.render(rng, depth + 1, pretty) for k in self.kids)
        return '%s<%s%s>%s%s%s</%s>%s' % (ind, self.name, a, nl, body, ind, self.name, nl)


class Gen:
    def __init__(self, rng, size=None):
        self.r = rng
        self.used = set()          # XML names produced
        self.size = size or rng.choice([1, 2, 3])
        self.ids = {}              # kind -> list of id strings
        self.refsites = []         # (element kind, element id, ref element name, target id)

    # ---- values ----
    def p(self, x):
        return self.r.random() < x

    def flt(self, lo, hi):
        r = self.r
        k = r.randrange(6)
        if k == 0:
            v = r.choice([lo, hi, (lo + hi) / 2.0])
        else:
            v = lo + (hi - lo) * r.random()
        f = r.choice(['%.1f', '%.2f', '%.6f', '%.4f', '%g', '%.3f'])
        s = f % v
        try:
            if not (lo <= float(s) <= hi):
                s = '%.6f' % max(lo, min(hi, v))
                if not (lo <= float(s) <= hi):
                    s = repr((lo + hi) / 2.0)
        except ValueError:
            s = '0'
        if r.random() < 0.05 and not s.startswith('-'):
            s = '+' + s
        return s

    def boolean(self):
        return self.r.choice(['0', '1'])

    def integer(self, lo, hi):
        return str(self.r.randint(lo, hi))

    def text(self):
        r = self.r
        if r.random() < 0.4:
            return r.choice(['Main', 'English', 'en', 'deu', 'Dialogue', 'M+30', 'RC_0001', 'My Programme', 'a&b', 'x<y', 'é', '"q"'])
        return ''.join(r.choice('abcXYZ019 _-.:&<>é') for _ in range(r.randrange(1, 9))).strip() or 'w'

    def time(self, maxs=3600):
        r = self.r
        secs = r.randrange(maxs) if r.random() < 0.8 else r.randrange(359999)
        h, m, s = secs // 3600, (secs // 60) % 60, secs % 60
        if r.random() < 0.3:
            den = r.choice([25, 30, 1000, 44100, 48000, 96000])
            return '%02d:%02d:%02d.%dS%d' % (h, m, s, r.randrange(den), den)
        nd = r.choice([5, 5, 9, 6, 1, 3])
        return '%02d:%02d:%02d.%s' % (h, m, s, ''.join(r.choice('0123456789') for _ in range(nd)))

    def new_id(self, kind, fmt):
        n = len(self.ids.setdefault(kind, []))
        base = self.r.choice([0x1001, 0x1001, 0x2000, 0x1100]) if n == 0 else None
        if not hasattr(self, 'base'):
            self.base = {}
        if base is not None:
            self.base[kind] = base
        v = self.base[kind] + n * self.r.choice([1, 1, 1, 2])
        while fmt(v) in self.ids[kind]:
            v += 1
        i = fmt(v)
        self.ids[kind].append(i)
        return i

    def use(self, node):
        self.used.add(node.name)
        for k, _v in node.attrs:
            self.used.add(node.name + '@' + k)
        return node

    # ---- small structures ----
    def label(self, name):
        n = Node(name, text=self.text())
        if self.p(0.6):
            n.attr('language', self.r.choice(['en', 'de', 'fr', 'eng']))
        return self.use(n)

    def loudness(self):
        n = Node('loudnessMetadata')
        if self.p(0.5):
            n.attr('loudnessMethod', self.r.choice(['ITU-R BS.1770', 'BS.1770-4', 'x']))
        if self.p(0.4):
            n.attr('loudnessRecType', self.r.choice(['EBU R128', 'ATSC A/85']))
        if self.p(0.3):
            n.attr('loudnessCorrectionType', self.r.choice(['File-based', 'Real-time']))
        for el in ('integratedLoudness', 'loudnessRange', 'maxTruePeak', 'maxMomentary', 'maxShortTerm', 'dialogueLoudness'):
            if self.p(0.45):
                n.add(self.use(Node(el, text=self.flt(-70, 20) if el != 'loudnessRange' else self.flt(0, 40))))
        return self.use(n)

    def gain(self, name='gain'):
        n = Node(name, text=self.flt(-60, 12) if self.p(0.5) else self.flt(0, 4))
        k = self.r.random()
        if k < 0.4:
            n.attr('gainUnit', 'dB')
        elif k < 0.6:
            n.attr('gainUnit', 'linear')
            n.text = self.flt(0, 4)
        else:
            n.text = self.flt(0, 4)
        return self.use(n)

    def headphone(self):
        n = Node('headphoneVirtualise')
        if self.p(0.7):
            n.attr('bypass', self.boolean())
        if self.p(0.5):
            n.attr('DRR', self.flt(-130, 130))
        return self.use(n)

    def interaction(self):
        n = Node('audioObjectInteraction').attr('onOffInteract', self.boolean())
        if self.p(0.6):
            n.attr('gainInteract', self.boolean())
        if self.p(0.6):
            n.attr('positionInteract', self.boolean())
        if self.p(0.6):
            for b in self.r.sample(['min', 'max'], self.r.randrange(1, 3)):
                g = self.gain('gainInteractionRange')
                g.attrs.insert(0, ('bound', b))
                n.add(self.use(g))
        if self.p(0.6):
            coords = [('azimuth', -180, 180), ('elevation', -90, 90), ('distance', 0, 1)] if self.p(0.6) else [('X', -1, 1), ('Y', -1, 1), ('Z', -1, 1)]
            for c, lo, hi in coords:
                for b in ('min', 'max'):
                    if self.p(0.5):
                        n.add(self.use(Node('positionInteractionRange', [('coordinate', c), ('bound', b)], text=self.flt(lo, hi))))
        return self.use(n)

    def position_offsets(self):
        out = []
        coords = [('azimuth', -180, 180), ('elevation', -90, 90), ('distance', -1, 1)] if self.p(0.6) else [('X', -1, 1), ('Y', -1, 1), ('Z', -1, 1)]
        for c, lo, hi in coords:
            if self.p(0.7):
                out.append(self.use(Node('positionOffset', [('coordinate', c)], text=self.flt(lo, hi))))
        return out

    # ---- blocks ----
    def block_times(self, n, state):
        if self.p(0.8):
            dur = self.r.choice([1, 2, 5]) * 10 ** self.r.choice([8, 9])
            t = state.get('t', 0)
            n.attr('rtime', self.fmt_ns(t))
            if self.p(0.9):
                n.attr('duration', self.fmt_ns(dur))
            state['t'] = t + dur

    @staticmethod
    def fmt_ns(ns):
        s = ns // 10 ** 9
        return '%02d:%02d:%02d.%09d' % (s // 3600, (s // 60) % 60, s % 60, ns % 10 ** 9)

    def speaker_position(self, n):
        sph = self.p(0.7)
        coords = [('azimuth', -180, 180), ('elevation', -90, 90), ('distance', 0, 1)] if sph else [('X', -1, 1), ('Y', -1, 1), ('Z', -1, 1)]
        for i, (c, lo, hi) in enumerate(coords):
            # the third axis is optional; its bounds are parsed whether or not the value itself is present
            if not (i == 2 and self.p(0.5)):
                e = Node('position', [('coordinate', c)], text=self.flt(lo, hi))
                if i == 0 and self.p(0.25):
                    e.attr('screenEdgeLock', self.r.choice(['left', 'right']))
                if i == 1 and self.p(0.25):
                    e.attr('screenEdgeLock', self.r.choice(['top', 'bottom']))
                n.add(self.use(e))
            for b in ('min', 'max'):
                if self.p(0.25):
                    n.add(self.use(Node('position', [('coordinate', c), ('bound', b)], text=self.flt(lo, hi))))

    def block(self, td, cid, idx, state):
        n = Node('audioBlockFormat').attr('audioBlockFormatID', 'AB_%s_%08x' % (cid[3:], idx))
        self.block_times(n, state)
        if self.p(0.15):
            n.attr('initializeBlock', self.boolean())
        if td == 1:
            for _ in range(self.r.randrange(0, 3)):
                n.add(self.use(Node('speakerLabel', text=self.r.choice(['M+030', 'M-030', 'U+045', 'LFE1', self.text()]))))
            self.speaker_position(n)
            if self.p(0.3):
                n.add(self.use(Node('headLocked', text=self.boolean())))
            if self.p(0.3):
                n.add(self.headphone())
            if self.p(0.4):
                n.add(self.gain())
            if self.p(0.3):
                n.add(self.use(Node('importance', text=self.integer(0, 10))))
        elif td == 3:
            cart = self.p(0.3)
            coords = [('X', -1, 1), ('Y', -1, 1), ('Z', -1, 1)] if cart else [('azimuth', -180, 180), ('elevation', -90, 90), ('distance', 0, 1)]
            if cart or self.p(0.3):
                n.add(self.use(Node('cartesian', text='1' if cart else '0')))
            for i, (c, lo, hi) in enumerate(coords):
                if i == 2 and self.p(0.4):
                    continue
                e = Node('position', [('coordinate', c)], text=self.flt(lo, hi))
                if not cart and i == 0 and self.p(0.2):
                    e.attr('screenEdgeLock', self.r.choice(['left', 'right']))
                if not cart and i == 1 and self.p(0.2):
                    e.attr('screenEdgeLock', self.r.choice(['top', 'bottom']))
                n.add(self.use(e))
            for el, lo, hi in (('width', 0, 360), ('height', 0, 360), ('depth', 0, 1)):
                if self.p(0.3):
                    n.add(self.use(Node(el, text=self.flt(lo, hi if not cart else 1))))
            if self.p(0.4):
                n.add(self.gain())
            if self.p(0.3):
                n.add(self.use(Node('diffuse', text=self.flt(0, 1))))
            if self.p(0.3):
                e = Node('channelLock', text=self.boolean())
                if self.p(0.5):
                    e.attr('maxDistance', self.flt(0, 2))
                n.add(self.use(e))
            if self.p(0.3):
                e = Node('objectDivergence', text=self.flt(0, 1))
                if self.p(0.5):
                    e.attr('azimuthRange', self.flt(0, 180))
                elif self.p(0.5):
                    e.attr('positionRange', self.flt(0, 1))
                n.add(self.use(e))
            if self.p(0.3):
                e = Node('jumpPosition', text=self.boolean())
                if self.p(0.6):
                    e.attr('interpolationLength', self.r.choice(['0.0125', '0.005', '1.5', '%.5f' % (self.r.random() * 30)]))
                n.add(self.use(e))
            if self.p(0.2):
                n.add(self.use(Node('screenRef', text=self.boolean())))
            if self.p(0.3):
                n.add(self.use(Node('importance', text=self.integer(0, 10))))
            if self.p(0.2):
                n.add(self.use(Node('headLocked', text=self.boolean())))
            if self.p(0.2):
                n.add(self.headphone())
        elif td == 4:
            order = self.r.randrange(0, 4)
            n.add(self.use(Node('order', text=str(order))))
            n.add(self.use(Node('degree', text=str(self.r.randint(-order, order)))))
            if self.p(0.3):
                n.add(self.use(Node('nfcRefDist', text=self.flt(0, 5))))
            if self.p(0.3):
                n.add(self.use(Node('screenRef', text=self.boolean())))
            if self.p(0.4):
                n.add(self.use(Node('normalization', text=self.r.choice(['SN3D', 'N3D', 'FuMa']))))
            if self.p(0.3):
                n.add(self.use(Node('equation', text=self.r.choice(['cos(A)*sin(E)', 'x', '1']))))
            if self.p(0.2):
                n.add(self.use(Node('headLocked', text=self.boolean())))
            if self.p(0.2):
                n.add(self.headphone())
            if self.p(0.3):
                n.add(self.gain())
            if self.p(0.3):
                n.add(self.use(Node('importance', text=self.integer(0, 10))))
        elif td == 5:
            if self.p(0.4):
                n.add(self.gain())
            if self.p(0.4):
                n.add(self.use(Node('importance', text=self.integer(0, 10))))
        return self.use(n)

    # ---- the eight kinds ----
    def type_attrs(self, n, td):
        k = self.r.randrange(4)
        if k in (0, 2):
            n.attr('typeLabel', '%04x' % td)
        if k in (1, 2):
            n.attr('typeDefinition', TYPES[td])

    def format_attrs(self, n):
        k = self.r.randrange(3)
        if k in (0, 2):
            n.attr('formatLabel', '0001')
        if k in (1, 2):
            n.attr('formatDefinition', 'PCM')

    def ref(self, parent, kind, pid, name, target):
        parent.add(self.use(Node(name, text=target)))
        self.refsites.append((kind, pid, name, target))

    def build(self):
        r = self.r
        sz = self.size
        afe = Node('audioFormatExtended')
        if self.p(0.3):
            afe.attr('version', 'ITU-R_BS.2076-2')
        tds = [r.choice([1, 3, 3, 4, 5]) for _ in range(r.randrange(1, 2 + sz))]
        chans = []
        for td in tds:
            for _ in range(r.randrange(1, 3)):
                cid = self.new_id('chan%d' % td, lambda v, td=td: 'AC_%04x%04x' % (td, v))
                self.ids.setdefault('chan', []).append(cid)
                chans.append((td, cid))
        packs = []
        for td in sorted(set(tds)):
            for _ in range(r.randrange(1, 3)):
                pid = self.new_id('pack%d' % td, lambda v, td=td: 'AP_%04x%04x' % (td, v))
                self.ids.setdefault('pack', []).append(pid)
                packs.append((td, pid))
        streams, tracks = [], []
        for td, cid in chans:
            if self.p(0.6):
                sid = self.new_id('stream%d' % td, lambda v, td=td: 'AS_%04x%04x' % (td, v))
                self.ids.setdefault('stream', []).append(sid)
                ts = []
                for k in range(r.randrange(0, 3)):
                    tid = 'AT_%s_%02x' % (sid[3:], k + 1)
                    self.ids.setdefault('track', []).append(tid)
                    ts.append(tid)
                streams.append((td, sid, cid, ts))
                tracks += [(tid, sid) for tid in ts]
        uids = ['ATU_%08x' % (i + r.choice([1, 1, 0x100])) for i in range(r.randrange(0, 2 + 2 * sz))]
        uids = sorted(set(uids))
        self.ids['uid'] = list(uids)
        objs = [self.new_id('obj', lambda v: 'AO_%04x' % v) for _ in range(r.randrange(0, 2 + sz))]
        conts = [self.new_id('cont', lambda v: 'ACO_%04x' % v) for _ in range(r.randrange(0, 1 + sz))]
        progs = [self.new_id('prog', lambda v: 'APR_%04x' % v) for _ in range(r.randrange(0, 1 + sz))]

        for pid in progs:
            n = Node('audioProgramme').attr('audioProgrammeID', pid).attr('audioProgrammeName', self.text())
            if self.p(0.5):
                n.attr('audioProgrammeLanguage', r.choice(['en', 'de', 'fr']))
            if self.p(0.5):
                n.attr('start', self.time())
            if self.p(0.4):
                n.attr('end', self.time())
            if self.p(0.3):
                n.attr('maxDuckingDepth', self.flt(-62, 0))
            for _ in range(r.randrange(0, 3)):
                n.add(self.label('audioProgrammeLabel'))
            for c in r.sample(conts, r.randrange(0, len(conts) + 1)):
                self.ref(n, 'prog', pid, 'audioContentIDRef', c)
            for _ in range(r.randrange(0, 3)):
                n.add(self.loudness())
            afe.add(self.use(n))
        for cid_ in conts:
            n = Node('audioContent').attr('audioContentID', cid_).attr('audioContentName', self.text())
            if self.p(0.4):
                n.attr('audioContentLanguage', r.choice(['en', 'de']))
            for _ in range(r.randrange(0, 3)):
                n.add(self.label('audioContentLabel'))
            for o in r.sample(objs, r.randrange(0, len(objs) + 1)):
                self.ref(n, 'cont', cid_, 'audioObjectIDRef', o)
            for _ in range(r.randrange(0, 2)):
                n.add(self.loudness())
            if self.p(0.6):
                k = r.randrange(3)
                d = Node('dialogue', text=str(k))
                d.attr(['nonDialogueContentKind', 'dialogueContentKind', 'mixedContentKind'][k], self.integer(0, [2, 6, 3][k]))
                n.add(self.use(d))
            afe.add(self.use(n))
        for i, oid in enumerate(objs):
            n = Node('audioObject').attr('audioObjectID', oid).attr('audioObjectName', self.text())
            if self.p(0.5):
                n.attr('start', self.time())
            if self.p(0.4):
                n.attr('duration', self.time())
            if self.p(0.3):
                n.attr('dialogue', self.integer(0, 2))
            if self.p(0.3):
                n.attr('importance', self.integer(0, 10))
            if self.p(0.3):
                n.attr('interact', self.boolean())
            if self.p(0.3):
                n.attr('disableDucking', self.boolean())
            for _ in range(r.randrange(0, 3)):
                n.add(self.label('audioObjectLabel'))
            for _ in range(r.randrange(0, 2)):
                n.add(self.label('audioComplementaryObjectGroupLabel'))
            for _td, p in r.sample(packs, r.randrange(0, min(2, len(packs)) + 1)):
                self.ref(n, 'obj', oid, 'audioPackFormatIDRef', p)
            later = objs[i + 1:]
            for o in r.sample(later, r.randrange(0, min(2, len(later)) + 1)):
                self.ref(n, 'obj', oid, 'audioObjectIDRef', o)
            others = [o for o in objs if o != oid]
            if others and self.p(0.3):
                for o in r.sample(others, r.randrange(1, min(2, len(others)) + 1)):
                    self.ref(n, 'obj', oid, 'audioComplementaryObjectIDRef', o)
            for u in r.sample(uids, r.randrange(0, min(3, len(uids)) + 1)):
                self.ref(n, 'obj', oid, 'audioTrackUIDRef', u)
            if self.p(0.2):
                self.ref(n, 'obj', oid, 'audioTrackUIDRef', 'ATU_00000000')
            if self.p(0.4):
                n.add(self.interaction())
            if self.p(0.3):
                n.add(self.gain())
            if self.p(0.2):
                n.add(self.use(Node('headLocked', text=self.boolean())))
            if self.p(0.3):
                for e in self.position_offsets():
                    n.add(e)
            if self.p(0.2):
                n.add(self.use(Node('mute', text=self.boolean())))
            afe.add(self.use(n))
        for k, (td, pid) in enumerate(packs):
            n = Node('audioPackFormat').attr('audioPackFormatID', pid).attr('audioPackFormatName', self.text())
            self.type_attrs(n, td)
            if self.p(0.3):
                n.attr('importance', self.integer(0, 10))
            if self.p(0.3):
                n.attr('absoluteDistance', self.flt(0, 100))
            if td == 4:
                if self.p(0.5):
                    n.attr('normalization', r.choice(['SN3D', 'N3D', 'FuMa']))
                if self.p(0.4):
                    n.attr('screenRef', self.boolean())
                if self.p(0.4):
                    n.attr('nfcRefDist', self.flt(0, 5))
            same = [c for t, c in chans if t == td]
            for c in r.sample(same, r.randrange(0, len(same) + 1)):
                self.ref(n, 'pack', pid, 'audioChannelFormatIDRef', c)
            later = [p for t, p in packs[k + 1:] if t == td]
            for p in later[:1]:
                if self.p(0.5):
                    self.ref(n, 'pack', pid, 'audioPackFormatIDRef', p)
            afe.add(self.use(n))
        for td, cid in chans:
            n = Node('audioChannelFormat').attr('audioChannelFormatID', cid).attr('audioChannelFormatName', self.text())
            self.type_attrs(n, td)
            if self.p(0.3):
                for ty in r.sample(['lowPass', 'highPass'], r.randrange(1, 3)):
                    n.add(self.use(Node('frequency', [('typeDefinition', ty)], text=self.flt(20, 20000))))
            state = {}
            for idx in range(1, r.randrange(1, 4) + 1):
                n.add(self.block(td, cid, idx, state))
            afe.add(self.use(n))
        for td, sid, cid, ts in streams:
            n = Node('audioStreamFormat').attr('audioStreamFormatID', sid).attr('audioStreamFormatName', self.text())
            self.format_attrs(n)
            if self.p(0.8):
                self.ref(n, 'stream', sid, 'audioChannelFormatIDRef', cid)
            else:
                same = [p for t, p in packs if t == td]
                if same:
                    self.ref(n, 'stream', sid, 'audioPackFormatIDRef', r.choice(same))
            lst = list(ts)
            if self.p(0.3):
                r.shuffle(lst)
            for t in lst:
                if self.p(0.85):
                    self.ref(n, 'stream', sid, 'audioTrackFormatIDRef', t)
            afe.add(self.use(n))
        for tid, sid in tracks:
            n = Node('audioTrackFormat').attr('audioTrackFormatID', tid).attr('audioTrackFormatName', self.text())
            self.format_attrs(n)
            if self.p(0.85):
                self.ref(n, 'track', tid, 'audioStreamFormatIDRef', sid)
            afe.add(self.use(n))
        for u in uids:
            n = Node('audioTrackUID').attr('UID', u)
            if self.p(0.6):
                n.attr('sampleRate', r.choice(['48000', '44100', '96000']))
            if self.p(0.6):
                n.attr('bitDepth', r.choice(['16', '24', '32']))
            k = r.random()
            if k < 0.45 and tracks:
                self.ref(n, 'uid', u, 'audioTrackFormatIDRef', r.choice(tracks)[0])
            elif k < 0.8 and chans:
                self.ref(n, 'uid', u, 'audioChannelFormatIDRef', r.choice(chans)[1])
            if self.p(0.7) and packs:
                self.ref(n, 'uid', u, 'audioPackFormatIDRef', r.choice(packs)[1])
            afe.add(self.use(n))
        if self.p(0.25):
            r.shuffle(afe.kids)            # the order of the element kinds in the file is free
        return afe


def wrap(afe, rng, env):
    fmt = Node('format', kids=[afe])
    core = Node('coreMetadata', kids=[fmt])
    if env == 'ebu':
        root = Node('ebuCoreMain', [('xmlns', 'urn:ebu:metadata-schema:ebuCore_2014'), ('xml:lang', 'en')], [core])
    else:
        root = Node('ituADM', [('xmlns', 'urn:metadata-schema:adm')], [core])
    pretty = rng.random() < 0.8
    head = '<?xml version="1.0" encoding="utf-8"?>\n' if rng.random() < 0.8 else ''
    if rng.random() < 0.1:
        head += '<!-- generated -->\n'
    return head + root.render(rng, 0, pretty)


def shrink_tree(tree, fails, max_tries=400):
    """Greedy structural shrinking: delete sub-elements and attributes while `fails(tree)` stays true."""
    tries = 0
    progress = True
    while progress and tries < max_tries:
        progress = False
        stack = [tree]
        while stack and tries < max_tries:
            n = stack.pop()
            i = 0
            while i < len(n.kids) and tries < max_tries:
                kid = n.kids.pop(i)
                tries += 1
                if fails(tree):
                    progress = True
                else:
                    n.kids.insert(i, kid)
                    i += 1
            j = 0
            while j < len(n.attrs) and tries < max_tries:
                a = n.attrs.pop(j)
                tries += 1
                if fails(tree):
                    progress = True
                else:
                    n.attrs.insert(j, a)
                    j += 1
            stack += n.kids
    return tree


def gen_file(rng, env=None, size=None):
    g = Gen(rng, size)
    afe = g.build()
    env = env or rng.choice(['ebu', 'itu'])
    return wrap(afe, rng, env), dict(env=env, ids=g.ids, refsites=g.refsites, used=sorted(g.used), tree=afe)


if __name__ == '__main__':
    import sys
    rng = random.Random(int(sys.argv[1]) if len(sys.argv) > 1 else 1)
    print(gen_file(rng)[0])
