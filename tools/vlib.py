"""vlib.py - shared machinery of the /verif checks.

One check = build libadm from /repo's working tree, regenerate the source-derived
model parts, re-check the property's theorems with coqc, extract the model, run
model and implementation on the same cases, apply the property oracle to the
implementation, report.  See DESIGN.md section 3.
"""
import fcntl
import hashlib
import json
import os
import random
import re
import shutil
import subprocess
import sys
import time

ROOT = os.path.dirname(os.path.dirname(os.path.abspath(__file__)))
REPO = os.environ.get('VERIF_REPO', '/repo')
BUILD = os.path.join(ROOT, 'build')
COQ = os.path.join(ROOT, 'coq')
GUARD = 'EBU_LIBADM_VERIF'
NPROC = str(os.cpu_count() or 8)

FLAVOURS = {
    'plain': '-O1 -DNDEBUG -D%s' % GUARD,
    'asan': '-O1 -g -DNDEBUG -D%s -fsanitize=address,undefined -fno-sanitize-recover=all -fno-omit-frame-pointer' % GUARD,
    'tsan': '-O1 -g -DNDEBUG -D%s -fsanitize=thread' % GUARD,
}

FORBIDDEN = re.compile(r'\b(Admitted|admit|Axiom|Axioms|Parameter|Parameters|Conjecture|Conjectures|'
                       r'Hypothesis|Hypotheses|Variable|Variables)\b|Unset\s+Guard|bypass_check|'
                       r'Unset\s+Positivity|Unset\s+Universe|type-in-type|impredicative-set|Admit\s+Obligations')


class CheckError(Exception):
    """The machinery itself could not run (build failure etc.): exit status 2."""


def sh(cmd, timeout=1800, cwd=None, inp=None, env=None, check=False):
    t0 = time.time()
    try:
        p = subprocess.run(cmd, shell=isinstance(cmd, str), cwd=cwd, input=inp, env=env,
                           stdout=subprocess.PIPE, stderr=subprocess.STDOUT, timeout=timeout,
                           universal_newlines=True, errors='replace')
        rc, out = p.returncode, p.stdout
    except subprocess.TimeoutExpired as e:
        rc, out = 124, (e.stdout or '') if isinstance(e.stdout, str) else ''
    if check and rc != 0:
        raise CheckError('command failed (%d): %s\n%s' % (rc, cmd, out[-4000:]))
    return rc, out, time.time() - t0


class Lock:
    """Serialises the build phases (libadm trees, coq/gen, .vo files, extraction) across checks."""

    def __init__(self, name='build'):
        os.makedirs(BUILD, exist_ok=True)
        self.path = os.path.join(BUILD, '.lock-' + name)

    def __enter__(self):
        self.f = open(self.path, 'w')
        fcntl.flock(self.f, fcntl.LOCK_EX)
        return self

    def __exit__(self, *a):
        fcntl.flock(self.f, fcntl.LOCK_UN)
        self.f.close()


# ---------------------------------------------------------------------------
# libadm and drivers
# ---------------------------------------------------------------------------

def build_libadm(flavour='plain'):
    """Configure (once) and build libadm from /repo's current working tree. Returns the build dir."""
    bdir = os.path.join(BUILD, 'libadm-' + flavour)
    if not os.path.exists(os.path.join(bdir, 'build.ninja')):
        os.makedirs(bdir, exist_ok=True)
        sh(['cmake', '-G', 'Ninja', '-S', REPO, '-B', bdir, '-DCMAKE_BUILD_TYPE=None',
            '-DCMAKE_CXX_FLAGS=' + FLAVOURS[flavour], '-DADM_UNIT_TESTS=OFF', '-DADM_EXAMPLES=OFF',
            '-DADM_PACKAGE_AND_INSTALL=OFF', '-Wno-dev'], check=True)
    rc, out, dt = sh(['cmake', '--build', bdir, '-j', NPROC])
    if rc != 0:
        raise CheckError('libadm (%s) does not build from %s:\n%s' % (flavour, REPO, out[-6000:]))
    return bdir


def _newest_mtime(paths):
    m = 0.0
    for p in paths:
        if os.path.isdir(p):
            for root, _d, files in os.walk(p):
                for fn in files:
                    m = max(m, os.path.getmtime(os.path.join(root, fn)))
        elif os.path.exists(p):
            m = max(m, os.path.getmtime(p))
    return m


DRV_PARTS = {
    'main': ('main.cpp', []),
    'codec': ('codec_drv.cpp', []),
    'heap': ('heap_drv.cpp', ['-DDRV_HEAP']),
    'threads': ('threads_drv.cpp', ['-DDRV_THREADS']),
    'xml': ('xml_drv.cpp', ['-DDRV_XML']),
    'acc': ('acc_drv.cpp', ['-DDRV_ACC']),
    'perturb': ('perturb.cpp', []),
}


ACC_STATS = None


def build_admdrv(flavour='plain', extra_sources=()):
    """Compile harness/cpp/*.cpp against the freshly built libadm. Returns path of admdrv."""
    bdir = build_libadm(flavour)
    ddir = os.path.join(BUILD, 'drv-' + flavour)
    os.makedirs(ddir, exist_ok=True)
    hdir = os.path.join(ROOT, 'harness', 'cpp')
    import accgen                       # the probe / fill tables are regenerated from the headers on every build
    global ACC_STATS
    ACC_STATS = accgen.generate(REPO, os.path.join(hdir, 'acc_probes.inc'))
    flags = FLAVOURS[flavour].split()
    inc = ['-I' + os.path.join(REPO, 'include'), '-I' + bdir, '-I' + os.path.join(REPO, 'submodules', 'rapidxml'),
           '-I' + os.path.join(REPO, 'submodules'), '-I' + hdir]
    hdr_m = _newest_mtime([os.path.join(REPO, 'include'), os.path.join(REPO, 'submodules', 'rapidxml')]
                          + [os.path.join(hdir, f) for f in os.listdir(hdir) if f.endswith(('.hpp', '.inc'))])
    present = [k for k, (src, _f) in DRV_PARTS.items() if os.path.exists(os.path.join(hdir, src))]
    defs = []
    for k in present:
        defs += DRV_PARTS[k][1]
    jobs = []
    objs = []
    for k in present:
        src = os.path.join(hdir, DRV_PARTS[k][0])
        obj = os.path.join(ddir, k + '.o')
        objs.append(obj)
        stamp = obj + '.flags'
        want = ' '.join(flags + defs)
        have = open(stamp).read() if os.path.exists(stamp) else None
        if (not os.path.exists(obj) or os.path.getmtime(obj) < max(hdr_m, os.path.getmtime(src))
                or have != want):
            cmd = ['g++', '-std=c++14'] + flags + defs + inc + ['-c', src, '-o', obj]
            jobs.append((subprocess.Popen(cmd, stdout=subprocess.PIPE, stderr=subprocess.STDOUT,
                                          universal_newlines=True), src, stamp, want))
    for p, src, stamp, want in jobs:
        out, _ = p.communicate()
        if p.returncode != 0:
            raise CheckError('driver %s does not compile:\n%s' % (src, out[-6000:]))
        open(stamp, 'w').write(want)
    exe = os.path.join(ddir, 'admdrv')
    lib = os.path.join(bdir, 'src', 'libadm.a')
    if jobs or not os.path.exists(exe) or os.path.getmtime(exe) < os.path.getmtime(lib):
        link = [f for f in flags if f.startswith('-fsanitize')]
        sh(['g++'] + link + objs + [lib, '-lpthread', '-o', exe], check=True)
    return exe


# ---------------------------------------------------------------------------
# translator, Coq, extraction
# ---------------------------------------------------------------------------

def translate():
    gen = os.path.join(COQ, 'gen')
    rc, out, dt = sh([sys.executable, os.path.join(ROOT, 'tools', 'translate.py'), REPO, gen])
    if rc != 0:
        return False, out, {}
    stats = json.load(open(os.path.join(gen, 'translate_stats.json')))
    return True, out, stats


def coq_makefile():
    mk = os.path.join(COQ, 'Makefile')
    cp = os.path.join(COQ, '_CoqProject')
    if not os.path.exists(mk) or os.path.getmtime(mk) < os.path.getmtime(cp):
        sh(['coq_makefile', '-f', '_CoqProject', '-o', 'Makefile'], cwd=COQ, check=True)


def coq_make(targets, timeout=2400, clean=False):
    coq_makefile()
    if clean:
        sh(['make', 'clean'], cwd=COQ)
        coq_makefile()
    cmd = ['make', '-k', '-j', NPROC] + list(targets)
    rc, out, dt = sh(cmd, cwd=COQ, timeout=timeout)
    return rc == 0, out, ' '.join(['cd coq &&', 'timeout', str(timeout)] + cmd)


THEOREM_RE = re.compile(r'^(Theorem|Corollary)\s+(\w+)', re.M)


def split_theorems(text):
    """[(name, block)] for each Theorem..Qed (+ trailing Print Assumptions) and the header before the first."""
    ms = list(THEOREM_RE.finditer(text))
    if not ms:
        return text, []
    header = text[:ms[0].start()]
    blocks = []
    for i, m in enumerate(ms):
        end = ms[i + 1].start() if i + 1 < len(ms) else len(text)
        blocks.append((m.group(2), text[m.start():end]))
    return header, blocks


def parse_assumptions(out):
    """Map theorem-order index -> list of axiom names from coqc's Print Assumptions output."""
    res = []
    cur = None
    for line in out.splitlines():
        if line.startswith('Closed under the global context'):
            res.append([])
            cur = None
        elif line.startswith('Axioms:'):
            cur = []
            res.append(cur)
        elif cur is not None:
            m = re.match(r'^(\S+)\s*:', line)
            if m:
                cur.append(m.group(1))
            elif line and not line.startswith(' '):
                cur = None
    return res


def coq_check_props(prop, timeout=2400):
    """Build the cone of Props/Properties_<prop>.v, re-run coqc on it, and measure the obligations.
    Returns dict(obligations, discharged, broken, axioms, checker_cmd, output, forbidden)."""
    rel = 'Props/Properties_%s.v' % prop
    path = os.path.join(COQ, rel)
    text = open(path).read()
    header, blocks = split_theorems(text)
    ok, out, cmd = coq_make([rel + 'o'], timeout=timeout)
    res = dict(obligations=len(blocks), discharged=0, broken=[], axioms={}, checker_cmd=cmd,
               output=out[-8000:], theorems=[b[0] for b in blocks], make_ok=ok)
    if ok:
        rc, pout, dt = sh(['coqc', '-Q', '.', 'Adm', rel], cwd=COQ, timeout=timeout)
        if rc == 0:
            res['discharged'] = len(blocks)
            ass = parse_assumptions(pout)
            for i, (name, _b) in enumerate(blocks):
                res['axioms'][name] = ass[i] if i < len(ass) else ['<not printed>']
        else:
            ok = False
            res['output'] = pout[-8000:]
    if not ok:
        # which theorems still check? each one in isolation over the same imports
        tmpdir = os.path.join(COQ, 'Props', 'tmp_' + prop)
        shutil.rmtree(tmpdir, ignore_errors=True)
        os.makedirs(tmpdir)
        try:
            for i, (name, block) in enumerate(blocks):
                fn = os.path.join(tmpdir, 'T%d.v' % i)
                open(fn, 'w').write(header + block)
                rc, pout, dt = sh(['coqc', '-Q', '.', 'Adm', '-Q', 'Props/tmp_' + prop, 'AdmTmp' + prop, fn],
                                  cwd=COQ, timeout=600)
                if rc == 0:
                    res['discharged'] += 1
                    ass = parse_assumptions(pout)
                    res['axioms'][name] = ass[0] if ass else ['<not printed>']
                else:
                    res['broken'].append(dict(theorem=name, error=pout[-1500:]))
        finally:
            shutil.rmtree(tmpdir, ignore_errors=True)
    res['forbidden'] = grep_forbidden()
    return res


def grep_forbidden():
    """Occurrences of forbidden vernacular anywhere in the development (comments stripped)."""
    hits = []
    for root, _d, files in os.walk(COQ):
        for fn in files:
            if not fn.endswith('.v'):
                continue
            p = os.path.join(root, fn)
            src = open(p, errors='replace').read()
            src = strip_coq_comments(src)
            in_section = 0
            for ln, line in enumerate(src.splitlines(), 1):
                if re.match(r'\s*Section\b', line):
                    in_section += 1
                if re.match(r'\s*End\b', line) and in_section:
                    in_section -= 1
                for m in FORBIDDEN.finditer(line):
                    w = m.group(0)
                    if in_section and re.match(r'(Variable|Variables|Hypothesis|Hypotheses|Context)$', w):
                        continue
                    hits.append('%s:%d: %s' % (os.path.relpath(p, ROOT), ln, line.strip()[:120]))
    return hits


def strip_coq_comments(src):
    out = []
    depth = 0
    i = 0
    while i < len(src):
        if src.startswith('(*', i):
            depth += 1
            i += 2
        elif src.startswith('*)', i) and depth:
            depth -= 1
            i += 2
        else:
            if depth == 0 or src[i] == '\n':
                out.append(src[i])
            i += 1
    return ''.join(out)


def build_modeldrv():
    """Extract the model (coqc Extract/Extract.v) and compile the OCaml driver. Returns path."""
    ok, out, _cmd = coq_make(['Extract/Driver.vo'])
    if not ok:
        raise CheckError('the executable model (Extract/Driver.v) does not compile:\n' + out[-6000:])
    edir = os.path.join(BUILD, 'extracted')
    os.makedirs(edir, exist_ok=True)
    sh(['coqc', '-Q', COQ, 'Adm', '-o', os.path.join(edir, 'Extract.vo'),
        os.path.join(COQ, 'Extract', 'Extract.v')], cwd=edir, check=True)
    odir = os.path.join(ROOT, 'harness', 'ocaml')
    srcs = ['conv.ml', 'codec_time.ml', 'heap_ops2.ml', 'heap_drv.ml', 'xml_drv.ml', 'acc_drv.ml', 'modes.ml', 'modeldrv.ml']
    srcs = [s for s in srcs if os.path.exists(os.path.join(odir, s))]
    for s in srcs:
        shutil.copy(os.path.join(odir, s), edir)
    sh(['ocamlfind', 'ocamlopt', '-w', '-a', 'model.mli', 'model.ml'] + srcs + ['-o', 'modeldrv'],
       cwd=edir, check=True)
    return os.path.join(edir, 'modeldrv')


# ---------------------------------------------------------------------------
# running drivers
# ---------------------------------------------------------------------------

def run_driver(exe, mode, cases_text, timeout=1800, args=(), env=None):
    p = subprocess.run([exe, mode] + list(args), input=cases_text, stdout=subprocess.PIPE,
                       stderr=subprocess.PIPE, universal_newlines=True, timeout=timeout, errors='replace',
                       env=env)
    return p.returncode, p.stdout, p.stderr


def run_sharded(exe, mode, lines, shards=None, timeout=1800, args=()):
    """Run a line-per-case driver on `lines` split into shards in parallel; returns output lines."""
    shards = shards or int(NPROC)
    n = len(lines)
    if n == 0:
        return []
    size = (n + shards - 1) // shards
    procs = []
    for i in range(0, n, size):
        chunk = '\n'.join(lines[i:i + size]) + '\n'
        p = subprocess.Popen([exe, mode] + list(args), stdin=subprocess.PIPE, stdout=subprocess.PIPE,
                             stderr=subprocess.PIPE, universal_newlines=True, errors='replace')
        procs.append((p, chunk))
    # feed and collect with threads to avoid pipe deadlocks
    import threading
    results = [None] * len(procs)

    def work(k):
        p, chunk = procs[k]
        try:
            out, err = p.communicate(chunk, timeout=timeout)
        except subprocess.TimeoutExpired:
            p.kill()
            out, err = p.communicate()
        results[k] = (p.returncode, out, err)

    ths = [threading.Thread(target=work, args=(k,)) for k in range(len(procs))]
    for t in ths:
        t.start()
    for t in ths:
        t.join()
    outl = []
    for k, (rc, out, err) in enumerate(results):
        got = out.split('\n')
        if got and got[-1] == '':
            got.pop()
        want = len(procs[k][1].split('\n')) - 1
        if rc != 0 or len(got) != want:
            got = got[:want] + ['<driver-failed rc=%s>' % rc] * (want - len(got))
        outl.extend(got)
    return outl


# ---------------------------------------------------------------------------
# findings, replays, evidence
# ---------------------------------------------------------------------------

def load_known(prop):
    p = os.path.join(ROOT, 'known_findings.json')
    if not os.path.exists(p):
        return []
    return [e for e in json.load(open(p)).get('findings', []) if e.get('property') == prop]


class Ctx:
    def __init__(self, prop, tier, seed):
        self.prop = prop
        self.tier = tier
        self.seed = seed
        self.rng = random.Random(seed)
        self.t0 = time.time()
        self.violations = []   # dicts: what, replay(dict), tag
        self.notes = []
        self.coverage = {}
        self.assumptions = []
        self.replay_n = 0
        rdir = os.path.join(ROOT, 'replays', prop)
        os.makedirs(rdir, exist_ok=True)
        for fn in os.listdir(rdir):          # replays of an earlier run with this seed are stale
            if fn.startswith('%d-' % seed):
                os.remove(os.path.join(rdir, fn))
        os.makedirs(os.path.join(ROOT, 'evidence'), exist_ok=True)

    def quick(self):
        return self.tier != 'thorough'

    def write_replay(self, content):
        self.replay_n += 1
        path = os.path.join(ROOT, 'replays', self.prop, '%d-%d.json' % (self.seed, self.replay_n))
        content = dict(content)
        content.setdefault('property', self.prop)
        content.setdefault('replay_cmd', './check %s --replay %s' % (self.prop, os.path.relpath(path, ROOT)))
        with open(path, 'w') as f:
            json.dump(content, f, indent=1, sort_keys=True)
        return os.path.relpath(path, ROOT)

    def violation(self, what, replay, tag=None, found_input=True):
        """Record a violation; `tag` is matched against known_findings.json."""
        self.violations.append(dict(what=what, replay=replay, tag=tag, found_input=found_input))

    def finish(self, proof, extra_cov=None, level='proof'):
        known = load_known(self.prop)
        known_tags = {e['tag']: e for e in known if e.get('kind') == 'known'}
        reported = 0
        seen_known = set()
        for v in self.violations:
            if v['tag'] is not None and v['tag'] in known_tags:
                if v['tag'] not in seen_known:
                    seen_known.add(v['tag'])
                    print('KNOWN-FINDING: property=%s %s' % (self.prop, known_tags[v['tag']]['what']))
                continue
            path = self.write_replay(v['replay'])
            reported += 1
            tail = '' if v['found_input'] else ' no-failing-input-found'
            print('VIOLATION property=%s replay=%s %s%s' % (self.prop, path, v['what'].replace('\n', ' ')[:300], tail))
        cov = dict(self.coverage)
        if proof is not None:
            axioms = sorted({a for l in proof['axioms'].values() for a in l})
            cov.update(obligations=proof['obligations'], discharged=proof['discharged'],
                       checker_cmd=proof['checker_cmd'], theorems=proof['theorems'],
                       broken_theorems=[b['theorem'] for b in proof['broken']],
                       axioms_per_theorem=proof['axioms'], forbidden_vernacular=proof['forbidden'],
                       trusted_base=trusted_base(axioms) + self.assumptions)
        if extra_cov:
            cov.update(extra_cov)
        ev = dict(property_id=self.prop, tier='thorough' if self.tier == 'thorough' else 'quick',
                  seed=self.seed, level=level, coverage=cov, assumptions=self.assumptions,
                  wall_s=round(time.time() - self.t0, 2), violations=reported,
                  known_findings=sorted(seen_known), notes=self.notes)
        with open(os.path.join(ROOT, 'evidence', self.prop + '.json'), 'w') as f:
            json.dump(ev, f, indent=1, sort_keys=True)
        print('%s %s: %d violation(s), %d known finding(s), %.1fs' %
              (self.prop, self.tier, reported, len(seen_known), time.time() - self.t0))
        return 1 if reported else 0


def trusted_base(axioms):
    tb = ['Coq 8.16.1 kernel (coqc, full .vo build, vm_compute; no native_compute)',
          'axioms reported by Print Assumptions under the property theorems: %s'
          % (', '.join(axioms) if axioms else 'none (closed under the global context)'),
          'tools/translate.py (pattern-based C++ -> Coq tables; validated by the correspondence run)',
          'extraction: ExtrOcamlBasic only (bool, option, unit, list, prod, sumbool, sumor -> OCaml types); '
          'nat/positive/N/Z extracted as inductives; no Extract Constant',
          'harness: harness/cpp/*.cpp (admdrv), harness/ocaml/*.ml (modeldrv), case generators and oracles in tools/',
          "libadm's C++ is modelled, not verified: theorems are about the Gallina model; the tie is the "
          'regenerated tables and the differential run of this check']
    return tb


def proof_violations(ctx, proof, search_found):
    """A broken obligation is reported unless the search already produced a concrete input."""
    if proof['forbidden']:
        ctx.violation('forbidden vernacular in the development: %s' % proof['forbidden'][:3],
                      dict(kind='proof-hygiene', hits=proof['forbidden']), tag=None, found_input=False)
    if proof['discharged'] != proof['obligations'] and not search_found:
        names = [b['theorem'] for b in proof['broken']]
        ctx.violation('theorem(s) no longer check: %s' % ', '.join(names),
                      dict(kind='broken-proof', theorems=proof['broken'], checker_cmd=proof['checker_cmd'],
                           make_output=proof['output'][-3000:]), tag=None, found_input=False)


def main_wrapper(run):
    """Common argv handling: check <id> --tier quick|thorough [--replay file]."""
    import argparse
    ap = argparse.ArgumentParser()
    ap.add_argument('prop')
    ap.add_argument('--tier', default=os.environ.get('VERIF_TIER', 'quick'))
    ap.add_argument('--replay', default=None)
    a = ap.parse_args()
    seed = int(os.environ.get('VERIF_SEED', '1') or '1')
    try:
        return run(a.prop, a.tier, seed, a.replay)
    except CheckError as e:
        print('CHECK-ERROR %s: %s' % (a.prop, e))
        return 2
