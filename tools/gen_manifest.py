#!/usr/bin/env python3
"""gen_manifest.py - writes /verif/MANIFEST.json from the table below (single source of truth for
the per-property claims).  Run after changing a claim; the file is committed."""
import json
import os

ROOT = os.path.dirname(os.path.dirname(os.path.abspath(__file__)))

COMMON_NOTE = ('Trusted base: Coq 8.16.1 kernel and vm_compute (no native_compute); axioms as listed per theorem by '
               'Print Assumptions in the evidence file; tools/translate.py; extraction with ExtrOcamlBasic only; '
               'harness drivers and generators. libadm\'s C++ is modelled, not verified: the theorems are about the '
               'Gallina model, tied to /repo on every run by regenerated tables and a differential run.')

CLAIMS = {
    'C09': dict(
        technique='Rocq proof of the complete specification of a successful deepCopy (copies carry all fields and the '
                  'images of all reference lists, nothing else changes, the result is again well-formed; Heap/CopyRefs.v, '
                  'Heap/CopyInv.v, Heap/Joint.v) + extracted-model/libadm differential run comparing copies with originals '
                  'and mutating either side',
        text='Proved (Props/Properties_C09.v) for every state reached by any history of the modelled calls and every '
             'successful Document::deepCopy from it: every field of every element that is not a copy is as before; the '
             'copies are fresh, pairwise distinct handles (no object is shared); the new document lists the copies in the '
             'order of the originals and carries the version; every copy has all fields of its original - concrete kind '
             '(HOA), ID, type, blocks, times, parameters - with the new document as parent; every reference list of every '
             'copy is the image of the original\'s list under the original -> copy map, in the same order (for an object\'s '
             'track-UID list: as addReference replays it - silent UIDs may repeat, a repeated non-silent UID is listed '
             'once); the copy is again well-formed, synchronised and keeps referenced and complementary objects apart, so '
             'the statement applies to copies of copies; a failed copy leaves the state unchanged. The proof computes the '
             'effect of every addReference/setReference call between elements that belong to no document and follows '
             'copyAllElements\' loops; the three source invariants it needs (C03 ownership, C12 synchronisation, '
             'disjointness of referenced and complementary objects) are proved for every reached state. Independence '
             '(Heap/Local.v): from any well-formed, synchronised state - in particular after a deepCopy - any sequence of '
             'the twelve core calls, whatever their outcome, that names no element of a document dB and not dB itself leaves '
             'every element of dB and its membership lists exactly as they were (the invariant: no stream/track link leads '
             'into dB from outside, no other document lists an element of dB, nothing outside is parented by dB); the same for '
             'the extended calls except reassignIds (Heap/LocalExt.v). Partial '
             'in two respects: that deepCopy never throws on such a source is not proved, and "hence byte-identical XML" '
             'relies on C01.',
        design='8 C09'),
    'C11': dict(
        technique='Rocq proof: the labelling of pack formats, channel formats and their blocks as an invariant of every '
                  'history of the modelled calls incl. block additions, copies, deepCopy, deepCopyTo, reassignIds and '
                  'updateBlockFormatDurations (Heap/Labels.v), block ID assignment / validation call by call '
                  '(Heap/BlockIds.v) + differential run with the ID-shape oracle on every snapshot',
        text='Proved (Props/Properties_C11.v; Heap/Labels.v, Heap/BlockIds.v). For every history of the modelled calls from '
             'the empty state: a pack or channel format with a defined ID carries its own type descriptor in that ID; every '
             'block vector of a channel format carries the channel format\'s type and consecutive counters in order; while '
             'the channel format\'s ID is defined every block carries its value (libadm leaves the blocks alone when the '
             'ID is set back to the undefined ID, and the property speaks of channel formats with a defined ID). For all '
             'inputs, call by call: a block without ID gets the channel format\'s type and value and the next counter (1 '
             'for the first); an explicit block ID with another type, value or a counter that does not continue the '
             'numbering throws and changes nothing; set(AudioChannelFormatId) moves the value of all block IDs and nothing '
             'else; reassignBlockFormats labels and numbers the own-type vector from 1 keeping times and payloads; a track '
             'format without ID takes type and value of its stream format at that moment. Partial in one respect: '
             'documents produced by the parser are not histories of the model; for them the labelling is explored by the '
             'ID-shape oracle on parsed files (C01/C02 runs).',
        design='8 C11'),
    'C14': dict(
        technique='Rocq proof that the complete reassignIds changes IDs only (every outcome) and that the numbering loop is '
                  'dense (which numbers the other kinds get: partial) + differential run with canonical-numbering, '
                  'unchanged-reserved/silent and idempotence oracles',
        text='Partial. Proved (Props/Properties_C14.v, Heap/Reassign.v) for every outcome: set(Id) on an element whose ID is '
             'neither reserved nor silent, the undefine pass and reassignBlockFormats keep kind, parent, type, every '
             'reference list, times, parameters, block times and payloads and the documents, and keep protected IDs; the '
             'numbering loop for programmes, contents and objects gives next, next+1, ... in document order to exactly the '
             'elements outside the reserved range and leaves the others unchanged; the complete function (pack formats, the '
             'stream / channel / track format section, track UIDs included) is proved by a Hoare-style traversal '
             '(Heap/ReassignFull.v) to change IDs and block IDs only, for every outcome, from every well-formed state. A '
             'successful call keeps the IDs of listed elements unique and the membership lists consistent (every ID it hands '
             'out goes through set(Id), which refuses an ID in use; Heap/UniqReassign.v), keeps the whole C05 invariant '
             'including the shape of IDs (Heap/ReassignU.v, a success-only traversal of the complete function with the '
             'kinds of the calling state and positive counters) and keeps the labelling of pack / channel formats and their '
             'blocks (Heap/Labels.v). Which numbers pack, stream, channel, track formats and track '
             'UIDs receive, and idempotence, are decided by the differential run.',
        design='8 C14'),
    'C16': dict(
        technique='Rocq proof of the block rewrite, of exact rational contiguity (decimal and fractional times) and of the '
                  'no-change-on-failure clause + differential run on structured scenes with an exact-fraction oracle',
        text='Proved (Props/Properties_C16.v, Heap/Durations.v) for all inputs: fix_blocks keeps number, IDs, rtimes and payloads '
             'of the blocks and gives each block the difference to the next rtime (the last: to the total) or keeps an old '
             'duration equal to it as a normalised fraction (representation kept); for decimal times the differences are '
             'exact and the timeline is contiguous and ends at the total; any failure while the effective durations are '
             'computed (ambiguity between objects or programmes, contradiction with the file length, nothing to derive a '
             'length from) returns the state unchanged; the rational arithmetic (normalisation, subtractTimes, timesEqual) is '
             'exact, so for fractional times too each duration equals, as a fraction, the next rtime minus the own rtime and '
             'the last block ends at the total. Outside the theorems: the choice of the effective total (model phase 1, '
             'compared with libadm by the run) and 64-bit overflow of boost::rational.',
        design='8 C16'),
    'C18': dict(
        technique='Rocq proof that the route tracer model returns exactly the reference paths, each once + extracted-model/'
                  'libadm differential run on generated graphs (routes, equality and hashes)',
        text='Theorems (Props/Properties_C18.v, Heap/Routes.v): for every state, start element and fuel for which the '
             'traversal returns, a route is returned if and only if it is a path programme -> content -> object (-> nested '
             'objects) -> pack format (-> nested pack formats) -> channel format of the reference graph, elements in path '
             'order; when no reference list holds an element twice no route is returned twice; the result does not depend '
             'on spare fuel. Shared sub-graphs and empty branches are covered by the quantification. Equality and hashes of '
             'route objects are checked on libadm by the run. Termination: the traversal returns within its fuel on every '
             'state reached by the modelled calls, copies included, and on every typed state whose object and pack-format '
             'graphs are acyclic (C18_returns_on_every_reached_document, Heap/Terminate.v).',
        design='8 C18'),
    'C03': dict(
        technique='Rocq proof of the ownership invariant over every history of all modelled API calls, Document::deepCopy '
                  'included (plans regenerated from src/document.cpp) + extracted-model/libadm differential run with the '
                  'well-formedness oracle',
        text='Theorems (Props/Properties_C03.v; Heap/WF.v, Heap/WFExt.v, Heap/Joint.v): every state reached from the empty '
             'state by successful calls - create, Document::add/remove, add/set/remove/unset/clear of all fifteen reference '
             'kinds including complementary objects and the stream/track protocol, set(Id), getSilent, lookup, add(block), '
             'time setters, element copy(), Document::deepCopy, deepCopyTo, reassignIds, updateBlockFormatDurations, route '
             'tracing and the object_creation helpers; any length, any number of elements and documents - lists every '
             'element once, lists it exactly when the listing document is its parent, and every element referenced by a '
             'parented element has the same parent. Document::add is proved to attach the whole reference closure '
             '(induction on fuel with a pending set); attaching to a second document and linking across documents throw. '
             'deepCopy is covered through the proof that the copies carry the images of the originals\' reference lists '
             '(Heap/CopyRefs.v), together with the C12 synchronisation invariant and the disjointness of an object\'s '
             'referenced and complementary objects, all three proved jointly for every history. The model is tied to '
             'libadm by comparing full snapshots after every call of generated histories; the oracle checks libadm\'s own '
             'snapshots.',
        design='8 C03'),
    'C04': dict(
        technique='Rocq proof of the specification of Document::remove on the heap model (on top of the C03 invariant) + '
                  'extracted-model/libadm differential run with the removal oracle',
        text='Theorems (Props/Properties_C04.v, Heap/Remove.v): for every well-formed state and every element of every kind, '
             'a successful Document::remove leaves the element without parent, no element of the document references it '
             'through any kind, every other element keeps all non-reference fields and has exactly its old reference lists '
             'with the removed element filtered out (same order), the membership list loses exactly that element; removing '
             'an unlisted element returns false and changes nothing. The plans (which referrer loops exist, erase-first / '
             'erase-all / unset) are regenerated from src/document.cpp and checked complete and typed.',
        design='8 C04'),
    'C05': dict(
        technique='Rocq proof: ID uniqueness as an invariant of every history of the modelled calls (Heap/Uniq.v, no '
                  'distinctness hypothesis), lookup returns the carrier, nextCounter least-free, fresh assigned IDs, set(Id) '
                  'in use throws + differential run with uniqueness, lookup and ID-stability oracles; the extracted model '
                  'evaluates the theorem\'s guard and the invariant on every generated history',
        text='Proved (Props/Properties_C05.v; Heap/Uniq.v, Heap/Ids.v) for every history of new document/new element/add/'
             'remove/the reference calls/set(Id)/getSilent/lookup from the empty state: two different members of one '
             'membership list carry different IDs unless the ID is reserved, undefined, a silent track UID or a track-UID '
             'value that does not fit the 32-bit field; lookup(id) of a non-exempt ID returns exactly the member carrying '
             'it; the distinctness nextCounter relies on is derived from the invariant, not assumed. The only guard on a '
             'history (shaped_run, decidable, evaluated by the extracted model on every generated history and reported in the '
             'evidence): an ID passed to set(Id) has the shape of its C++ type and value 0 of a pack/channel/stream-format '
             'ID belongs to the all-zero ID. Also for all inputs: nextCounter returns the least free value at or above the '
             'preferred one and keeps a free one; Document::add changes no element already in a document; set(Id) of an ID '
             'in use throws and changes nothing. Partial in these respects: the model\'s ID fields are unbounded (wrap-around '
             'at the top of the 16/32-bit fields is outside the model, as the property\'s quantifier allows); parsed documents '
             'are covered by C08/C13 and the oracles. The invariant is also carried through the extended calls - block '
             'additions, copy(), Document::deepCopy, deepCopyTo, reassignIds, updateBlockFormatDurations, tracing '
             '(Heap/UniqExt.v, Heap/ReassignU.v: every ID reassignIds hands out goes through set(Id), which refuses an ID in '
             'use, and has the shape of its kind because the counters start at 0x1001 and only grow).',
        design='8 C05'),
    'C01': dict(
        technique='Rocq proof over writer/parser tables regenerated from the XML code (name-level agreement, literal values, '
                  'table-driven round trip of the regular rows, ID and time codecs; partial) + write-parse-write differential run on libadm',
        text='Partial. Proved (Props/Properties_C01.v) on tables regenerated on every run from rapidxml_formatter.cpp, '
             'document_parser.cpp and frame_header_parser.cpp: every statement of the format/parse functions is classified; '
             'every attribute, sub-element and IDRef a format function emits under a literal name is read, in the same '
             'syntactic class and for the same parameter, by its parse function; every literal attribute value the writer '
             'uses is a literal the parser compares with; for the regular rows (one attribute or text sub-elements under a '
             'unique name; 97 rows at present) the table-driven reader returns what the table-driven writer emitted and '
             're-writing gives the same element, for all values; ID and time texts are read back as the same values (C10, '
             'C15). Not proved: rapidxml printing/lexing, the irregular format functions, reference resolution - the full '
             'statement is decided on libadm by write -> parse -> write over API histories with random valid values for '
             'every settable parameter (tables generated from the headers), common-definition references, four configurations.',
        design='8 C01'),
    'C02': dict(
        technique='Rocq proof of the converse table coverage and the regular-row round trip (partial) + parse-write-parse '
                  'differential run on grammar-generated files and tests/test_data',
        text='Partial. Proved (Props/Properties_C02.v): every attribute, sub-element and IDRef a parse function looks for is '
             'emitted by the paired format function (tables regenerated on every run; documented stubs listed in '
             'tools/xml_pairs.py); regular rows round-trip for all values. The full statement is decided on libadm: files from '
             'a grammar-based generator independent of the writer (tools/admxmlgen.py) and every file under tests/test_data '
             'are parsed, written and parsed again, and the two documents are compared through every public accessor '
             '(values at six decimals), with structural shrinking of failing files.',
        design='8 C02'),
    'C07': dict(
        technique='Rocq proof of termination of the node searches on a regenerated navigation inventory (partial) + '
                  'ASan/UBSan run of every parser entry point on generated and mutated inputs with a time limit',
        text='Partial by nature: memory safety and undefined behaviour belong to the compiled C++. Proved '
             '(Props/Properties_C07.v): every sibling loop of the parsers advances its own cursor and every recursive search '
             'descends into children (inventory regenerated from the sources); on the tree model such loops terminate within '
             'one step per sibling and such searches within the depth of the tree, and the excluded loop shape diverges; the '
             'ID and time parsers reject texts of the wrong length before indexing. Explored: every entry point and option '
             'set on valid files and frames, structure-aware garbage, nesting to 256, byte mutations, up to 64 KiB, in an '
             'ASan+UBSan build with a time limit; returned documents are checked against the invariants of C03/C05/C06/C12.',
        design='8 C07'),
    'C08': dict(
        technique='Rocq proof on a phase model of the parser (duplicate IDs, dangling references) tied by table checkers to '
                  'the regenerated parser tables + fault injection at every site of generated files on libadm',
        text='Proved (Props/Properties_C08.v): in the model of DocumentParser::parse() as two list programs, a file with two '
             'elements of one kind sharing an ID is rejected wherever they stand (and only such files are rejected by that '
             'phase), and a reference naming no element is rejected at any position of any table; the regenerated tables '
             'show that every dispatched element parser executes the duplicate check directly after reading the ID, that '
             'all fifteen pending tables are filled by dispatched parsers and resolved, and that every resolver throws on a '
             'miss. Type/format contradictions, the track-UID exclusion, block-format IDs, mandatory attributes and validated '
             'ranges are decided by injecting each fault at every site (first/middle/last) of generated valid files.',
        design='8 C08'),
    'C13': dict(
        technique='Rocq proof over a regenerated inventory of associative containers and a model of the pending reference '
                  'tables + runs under a perturbing allocator (different address orders)',
        text='Proved (Props/Properties_C13.v): no associative container keyed by a pointer (or by a template parameter '
             'instantiated with one) is iterated anywhere in libadm and no owner-based pointer order is used (inventory '
             'regenerated from all sources and headers); the parser\'s pending reference tables iterate in first-insertion '
             'order for every layout, and renaming handles only renames that order. Pointer comparisons outside containers '
             'and the real allocator are covered by the run: the same bytes parsed and written, and the same API histories '
             'replayed, under several seeded address layouts of a replaced operator new, XML compared byte for byte.',
        design='8 C13'),
    'C19': dict(
        technique='Rocq proof of the time reference rule on a model of the block time formatter/parser, of the frameFormatID '
                  'codec and of the header table agreement (partial) + SADM frame write-parse-write differential run',
        text='Partial. Proved (Props/Properties_C19.v): the frame header format and parse functions agree on every literal '
             'name in both directions (regenerated tables); short and long frameFormatIDs round-trip; block times are written '
             'under the names of the header\'s time reference, read back unchanged with that header, rejected with a header of '
             'the other reference as soon as a block has a start or duration, accepted when the mismatch is permitted; every '
             'block format pair carries the four time attributes. The byte-level round trip of whole frames (random headers '
             'with changedIDs, profiles, transport track formats; four writer option sets) and the rejection rule are run on libadm.',
        design='8 C19'),
    'C10': dict(
        technique='Rocq proof over generated ID descriptors + extracted-model/libadm differential run',
        text='Theorems (Props/Properties_C10.v) hold for every descriptor regenerated from the IdTraits/IdSection '
             'specialisations, every field value and every string: parse(format v) = v, format(parse s) = s up to hex '
             'case, rejection of wrong prefix/length/separator/non-hex/type field > 5, too-wide values, FrameFormatId '
             'short/long dispatch. The generic template and the dispatch are hand-modelled and tied by running the '
             'extracted model and libadm on every 16-bit/8-bit field value, sampled 32-bit values and all strings at '
             'edit distance 1 (sampled at distance 2); an independent ID grammar is the oracle on libadm.',
        design='8 C10'),
    'C15': dict(
        technique='Rocq proof of the timecode codec model + extracted-model/libadm differential run',
        text='Theorems (Props/Properties_C15.v) hold for every nanosecond value below 100 h and every fraction with a '
             'positive 31-bit denominator: parse(format t) = t exactly, the text has the shape hh:mm:ss.d{5,9} / '
             'hh:mm:ss.nSd, and every accepted string has the grammar dd:dd:dd<sep>d+[Sd+] with a non-zero denominator '
             '(so wrong widths, non-digit fields, missing parts, zero denominators are rejected). The model of '
             'src/elements/time.cpp is hand-written and tied by running the extracted model and libadm on about two '
             'million cases per quick run; an independent Python formatter/recogniser is the oracle on libadm.',
        design='8 C15'),
    'C06': dict(
        technique='Rocq proof of acyclicity as an invariant of every API call of the heap model + plans regenerated from '
                  'src/document.cpp + extracted-model/libadm differential run',
        text='Theorems (Props/Properties_C06.v): for every history of API calls (any length, any number of elements and '
             'documents, continuing past exceptions) the audioObject, complementary-object and nested-pack graphs of the '
             'model are acyclic; the call that would close a cycle returns the same state and the cycle exception; the '
             'recursive guard is sound for every fuel and terminates on acyclic states. The model (Heap/Exec.v) interprets '
             'the add/remove plans regenerated from src/document.cpp and is tied to libadm by comparing full snapshots '
             'after every call of generated histories; a DFS on libadm\'s own snapshots is the oracle. The "consequently" '
             'clause is proved too: acyclicity is carried through the extended calls, copies included (deepCopy edges are '
             'images of edges, Heap/CopyInv.v); the model\'s recursive Document::add never exhausts its fuel (Heap/Fuel.v: '
             'two calls per element without parent, one more for a track format whose stream format is already attached) and '
             'the route tracer returns on every reached document (Heap/Terminate.v: a cycle of tracer steps would be a cycle '
             'of object or pack-format references). Parsed files are covered by the C07/C08 runs.',
        design='8 C06'),
    'C12': dict(
        technique='Rocq proof of the stream/track synchronisation invariant over the heap model (partial for failing link '
                  'calls) + extracted-model/libadm differential run with the Sync oracle after every call',
        text='Theorems (Props/Properties_C12.v): from any synchronised state every API call of the model keeps "track '
             'format T references S iff S lists T, once" - for every outcome of every call, except that for '
             'AudioStreamFormat::addReference(track) and AudioTrackFormat::setReference(stream) it is proved for the '
             'successful outcome only (theorems named _partial; the full statement and what is missing are written in the '
             'file). clearReferences, removeReference (both sides) and Document::remove are proved for every outcome. From states '
             'that are also well-formed in the sense of C03 the two failing linking calls are proved as well (Heap/SyncFull.v: '
             'they can only fail before their first write), hence Sync holds after every history of successful calls '
             'followed by one call of any outcome. '
             'The missing half - no exception between the two writes of a linking call - is explored: libadm and the '
             'extracted model are run on generated histories over several stream and track formats and the Sync oracle is '
             'applied to libadm after every call, including calls that throw. Copies: Sync is proved after every history '
             'of successful calls of the extended call set - copy(), Document::deepCopy, deepCopyTo, reassignIds, block and '
             'duration calls - (C12_sync_all_calls, Heap/Joint.v). Parsed files are covered by the C01/C02 runs.',
        design='8 C12'),
    'C17': dict(
        technique='Rocq proof of the accessor contract for rows regenerated from the hand-written accessors + generated '
                  'C++ harness probing every (class, parameter) pair on real objects',
        text='Theorems (Props/Properties_C17.v): an accessor row accepted by the verified checker satisfies the documented '
             'contract (set => has, get = v, not isDefault, other slots untouched; unset => optional: not has / default: '
             'has, isDefault, get = default; has => get succeeds) for every value type, value and object state; every '
             'scalar hand-written parameter of the current tree (rows regenerated from src/elements and src/serial on every '
             'run) is accepted. The auto_base templates and the opaque rows (variants, coupled setters, ID setters) are '
             'covered by the generated harness only: one probe per (class, parameter) pair (226 pairs) with set/unset '
             'histories, including a fingerprint of all other parameters of the object after every step.',
        design='8 C17'),
    'C20': dict(
        technique='Rocq proof over a regenerated inventory of static objects and of interleaving independence in the model '
                  '(partial) + ThreadSanitizer workloads and aliasing tests',
        text='Partial by nature: a Gallina model cannot express data races in the C++. Proved (Props/Properties_C20.v): '
             'every object with static storage duration found in libadm\'s sources is const/constexpr (inventory '
             'regenerated from /repo on every run); in the model, workloads on separate worlds give under every '
             'interleaving the states and results of running each alone. Explored: generated workloads run alone, in the '
             'extracted model, and in 2..16 threads of a ThreadSanitizer build (identical output, no race report); '
             'sequential aliasing tests for getCommonDefinitions, parseXml, Document::create and deepCopy.',
        design='8 C20'),
}

NOT_YET = {}
ALL = ['C%02d' % i for i in range(1, 21)]


def main():
    checks = []
    for pid in ALL:
        if pid not in CLAIMS:
            continue
        c = CLAIMS[pid]
        checks.append(dict(
            property_id=pid,
            quick_cmd='./check %s --tier quick' % pid,
            thorough_cmd='./check %s --tier thorough' % pid,
            evidence_file='/verif/evidence/%s.json' % pid,
            replay_cmd_template='./check %s --replay {path}' % pid,
            engine='rocq-model',
            level_claimed=dict(category=c.get('category', 'proof'), text=c['text'], design_ref='DESIGN.md section ' + c['design']),
            level_note=c.get('note', COMMON_NOTE),
            technique=c['technique']))
    na = [dict(property_id=p, reason=NOT_YET.get(p, 'check not built yet (construction order in DESIGN.md section 12); '
                                                    'not claimed until its theorems and correspondence exist'))
          for p in ALL if p not in CLAIMS]
    m = dict(
        version=1,
        setup_cmd='./check setup',
        hooks=dict(guard='EBU_LIBADM_VERIF',
                   enable='checks build /repo into /verif/build/libadm-<flavour> with -DEBU_LIBADM_VERIF (tools/vlib.py)',
                   baseline_off_cmd='cmake -G Ninja -S /repo -B /verif/build/baseline-off -DCMAKE_BUILD_TYPE=RelWithDebInfo '
                                    '-DCMAKE_CXX_FLAGS=-Wno-error > /dev/null && cmake --build /verif/build/baseline-off -j16 > /dev/null '
                                    '&& ctest --test-dir /verif/build/baseline-off -j8 --timeout 900',
                   source_commits=[], add_only=True),
        engines=[dict(name='rocq-model', path='/verif/coq', serves_properties=sorted(CLAIMS),
                      kind_free_text='Gallina models + theorems (coqc), tables regenerated from /repo by tools/translate.py, '
                                     'extracted OCaml model (modeldrv) run against libadm (admdrv) on generated cases')],
        checks=checks,
        notes='See DESIGN.md. Every check rebuilds libadm from /repo\'s working tree, regenerates coq/gen, re-checks the '
              'property theorems, re-extracts the model and runs the correspondence.',
        not_applicable=na)
    with open(os.path.join(ROOT, 'MANIFEST.json'), 'w') as f:
        json.dump(m, f, indent=1)
        f.write('\n')


if __name__ == '__main__':
    main()
