#!/bin/bash
# confirm_seed.sh <property> <seed dir> <name> - confirm a seeded change independently in the scratch worktree
# /tmp/wt-<property>: applies, builds, the 77 tests pass, the demo fails with it and passes on pristine /repo;
# then files it under /verif/seeded/<name>/ with what was run.
set -u
prop="$1"; dir="$2"; name="$3"; wt="${WT:-/tmp/wt-$prop}"
log=/tmp/confirm-$name.log
{
cd "$wt" && git checkout -q -- . && git apply "$dir/patch.diff" || { echo "APPLY-FAILED"; exit 3; }
cmake -G Ninja -S "$wt" -B "$wt/_build" -DCMAKE_BUILD_TYPE=RelWithDebInfo -DCMAKE_CXX_FLAGS=-Wno-error >/dev/null 2>&1
cmake --build "$wt/_build" -j12 2>&1 | tail -2
ctest --test-dir "$wt/_build" -j12 --timeout 900 2>&1 | tail -3
} > "$log" 2>&1
tests=$(grep -o "[0-9]*% tests passed, [0-9]* tests failed out of [0-9]*" "$log" | tail -1)
bash "$dir/run_demo.sh" "$wt" >> "$log" 2>&1; patched=$?
bash "$dir/run_demo.sh" /repo >> "$log" 2>&1; orig=$?
mkdir -p /verif/seeded/$name
cp "$dir/patch.diff" "$dir/demo.cpp" "$dir/run_demo.sh" /verif/seeded/$name/
python3 - "$dir/meta.json" "$name" "$prop" "$tests" "$patched" "$orig" <<'PY'
import json, sys
src, name, prop, tests, patched, orig = sys.argv[1:]
try:
    m = json.load(open(src))
except Exception:
    m = {}
out = dict(property=prop, summary=m.get('summary', ''), needs=m.get('needs', ''),
           confirmed=dict(tests=tests, demo_exit_with_change=int(patched), demo_exit_on_pristine_repo=int(orig),
                          ran='git apply patch.diff in a scratch worktree of /repo; cmake --build; ctest (77 tests); '
                              'run_demo.sh <patched tree>; run_demo.sh /repo'),
           author='independent sub-agent given only the property text')
json.dump(out, open('/verif/seeded/%s/meta.json' % name, 'w'), indent=1)
print(name, tests, 'demo patched exit', patched, 'pristine exit', orig)
PY
