"""heapcheck.py - shared flow of the heap-model properties (C03-C06, C09, C11, C12, C14, C16, C18, C20):
build, regenerate plans, re-check the property's theorems, extract, generate op histories, run the
extracted model and libadm on them, compare output case by case, apply the property's own oracle
to libadm's snapshots, shrink failures, report."""
import json
import os
import random
import re

import heapgen
import vlib


# ---------------------------------------------------------------------------
# snapshot parsing
# ---------------------------------------------------------------------------
LIST_RE = re.compile(r'(\w+)=\[([^\]]*)\]')


class Snap:
    def __init__(self):
        self.docs = {}    # name -> {kind: [handles]}
        self.els = {}     # name -> dict(kind, parent, id, refs{rk:[..]}, raw)

    def key(self):
        return (tuple(sorted((d, tuple(sorted((k, tuple(v)) for k, v in m.items()))) for d, m in self.docs.items())),
                tuple(sorted((h, e['raw']) for h, e in self.els.items())))


def parse_snapshot(lines):
    s = Snap()
    for ln in lines:
        t = ln.split()
        if t[0] == 'doc':
            s.docs[t[1]] = {k: ([x for x in v.split(',')] if v else []) for k, v in LIST_RE.findall(ln)}
        elif t[0] == 'el':
            e = dict(kind=t[2], parent=None, id=None, refs={}, raw=ln, td=None, blocks=None, extra={})
            for tok in t[3:]:
                k, _, v = tok.partition('=')
                if k == 'parent':
                    e['parent'] = None if v == '-' else v
                elif k == 'id':
                    e['id'] = tuple(int(x) for x in v.split(':'))
                elif k == 'td':
                    e['td'] = int(v)
                elif k == 'blocks':
                    e['blocks'] = v
                elif v.startswith('['):
                    e['refs'][k] = [x for x in v[1:-1].split(',')] if v != '[]' else []
                else:
                    e['extra'][k] = v
            s.els[t[1]] = e
    return s


def split_ops(script, output):
    """Align a case's script lines with its output lines: returns [(op line, result line, snapshot lines or None)].
    A 'snapshot' op yields its snapshot lines followed by 'ok'."""
    res = []
    j = 0
    for op in script:
        if op == 'end':
            break
        if j >= len(output):
            break          # the output was cut (a call the harness declined, or the rest of a case after an ID left its field)
        if op == 'snapshot':
            snap = []
            while j < len(output) and (output[j].startswith('doc ') or output[j].startswith('el ')):
                snap.append(output[j])
                j += 1
            r = output[j] if j < len(output) else '<missing>'
            j += 1
            res.append((op, r, snap))
        else:
            r = output[j] if j < len(output) else '<missing>'
            j += 1
            res.append((op, r, None))
    return res


# ---------------------------------------------------------------------------
# oracles on libadm's own snapshots
# ---------------------------------------------------------------------------
UNDEF = {'uid': (0, 0xffffffff, 0)}


def is_undefined(kind, i):
    return i == UNDEF.get(kind, (0, 0, 0))


def is_reserved(kind, i):
    return kind != 'uid' and 1 <= i[1] <= 0xfff


def is_silent(kind, i):
    return kind == 'uid' and i[1] == 0


def oracle_wf(s):
    """C03: listed exactly when parent, once, by one document; references stay inside the document."""
    probs = []
    listed = {}
    for d, m in s.docs.items():
        for k, l in m.items():
            if len(set(l)) != len(l):
                probs.append('document %s lists an element twice in %s=%s' % (d, k, l))
            for h in l:
                if h in listed and listed[h] != d:
                    probs.append('%s is listed by %s and by %s' % (h, listed[h], d))
                listed[h] = d
                if h in s.els and s.els[h]['kind'] != k:
                    probs.append('%s of kind %s listed under %s' % (h, s.els[h]['kind'], k))
    for h, e in s.els.items():
        if e['parent'] != listed.get(h):
            probs.append('%s has parent %s but is listed by %s' % (h, e['parent'], listed.get(h)))
        if e['parent'] is not None:
            for rk, l in e['refs'].items():
                for t in l:
                    if t in s.els and s.els[t]['parent'] != e['parent']:
                        probs.append('%s (in %s) references %s through %s, whose parent is %s'
                                     % (h, e['parent'], t, rk, s.els[t]['parent']))
    return probs


def oracle_sync(s):
    """C12: track format references S exactly when S lists it, once."""
    probs = []
    for h, e in s.els.items():
        if e['kind'] == 'stream':
            l = e['refs'].get('streamtrack', [])
            if len(set(l)) != len(l):
                probs.append('stream format %s lists a track format twice: %s' % (h, l))
            for t in l:
                if t in s.els and s.els[t]['refs'].get('trackstream') != [h]:
                    probs.append('stream format %s lists %s, which references %s'
                                 % (h, t, s.els[t]['refs'].get('trackstream')))
        if e['kind'] == 'track':
            for st in e['refs'].get('trackstream', []):
                if st in s.els and h not in s.els[st]['refs'].get('streamtrack', []):
                    probs.append('track format %s references %s, which does not list it' % (h, st))
    return probs


def oracle_acyclic(s):
    """C06: no cycle through objobj, objcompl or packpack."""
    probs = []
    for rk in ('objobj', 'objcompl', 'packpack'):
        color = {}

        def dfs(u):
            color[u] = 1
            for v in s.els[u]['refs'].get(rk, []):
                if v not in s.els:
                    continue
                if color.get(v) == 1:
                    return [u, v]
                if color.get(v) is None:
                    r = dfs(v)
                    if r:
                        return [u] + r
            color[u] = 2
            return None
        for h in s.els:
            if color.get(h) is None and rk in s.els[h]['refs']:
                r = dfs(h)
                if r:
                    probs.append('%s cycle: %s' % (rk, ' -> '.join(r)))
                    break
    return probs


def oracle_uniq(s):
    """C05: no two listed elements of one kind share an ID outside reserved / undefined / silent values."""
    probs = []
    for d, m in s.docs.items():
        for k, l in m.items():
            seen = {}
            for h in l:
                if h not in s.els:
                    continue
                i = s.els[h]['id']
                if is_undefined(k, i) or is_reserved(k, i) or is_silent(k, i):
                    continue
                if i in seen:
                    probs.append('%s and %s in %s share the ID %s' % (seen[i], h, d, i))
                seen[i] = h
    return probs


def oracle_idshape(s):
    """C11: pack / channel IDs carry their type; block IDs follow their channel format."""
    probs = []
    for h, e in s.els.items():
        if e['kind'] in ('pack', 'chan') and not is_undefined(e['kind'], e['id']):
            if e['id'][0] != e['td']:
                probs.append('%s has type %s but its ID says %s' % (h, e['td'], e['id'][0]))
        if e['kind'] == 'chan' and not is_undefined('chan', e['id']) and e['blocks']:
            for vec in e['blocks'].strip('{}').split(';'):
                if not vec:
                    continue
                _t, _, ids = vec.partition(':')
                prev = None
                for b in ids.split(','):
                    ty, val, ctr = (int(x) for x in b.split('.'))
                    if ty != e['td'] or val != e['id'][1]:
                        probs.append('block %s of %s does not carry its type/value (%s, %s)' % (b, h, e['td'], e['id'][1]))
                    if prev is not None and ctr != prev + 1:
                        probs.append('blocks of %s are not numbered consecutively at %s' % (h, b))
                    prev = ctr
    return probs


# ---------------------------------------------------------------------------
# running cases
# ---------------------------------------------------------------------------

MSTATS = {}


def note_mstat(stderr):
    for ln in (stderr or '').splitlines():
        if ln.startswith('MSTAT '):
            for kv in ln.split()[1:]:
                k, v = kv.split('=')
                MSTATS[k] = MSTATS.get(k, 0) + int(v)


def run_cases(exe, cases, shards=None):
    """cases: list of line lists. Returns list of output line lists, one per case."""
    shards = shards or int(vlib.NPROC)
    n = len(cases)
    if n == 0:
        return []
    size = (n + shards - 1) // shards
    import subprocess
    import threading
    chunks = [cases[i:i + size] for i in range(0, n, size)]
    results = [None] * len(chunks)

    def work(k):
        text = '\n'.join('\n'.join(c) for c in chunks[k]) + '\n'
        try:
            p = subprocess.run([exe, 'heap'], input=text, stdout=subprocess.PIPE, stderr=subprocess.PIPE,
                               universal_newlines=True, timeout=1800, errors='replace')
            out = heapgen.split_results(p.stdout)
            note_mstat(p.stderr)
            if p.returncode != 0:
                out.append(['<driver-failed rc=%d %s>' % (p.returncode, p.stderr[-300:].replace('\n', ' '))])
        except subprocess.TimeoutExpired:
            out = [['<driver-timeout>']]
        while len(out) < len(chunks[k]):
            out.append(['<missing>'])
        results[k] = out[:len(chunks[k])]

    ths = [threading.Thread(target=work, args=(k,)) for k in range(len(chunks))]
    for t in ths:
        t.start()
    for t in ths:
        t.join()
    return [o for r in results for o in r]


def shrink(lines, fails, max_rounds=200):
    """Delta debugging on the op lines of one case (the final 'end' is kept). `fails(lines)` -> bool."""
    body = [l for l in lines if l != 'end']
    n = 2
    rounds = 0
    while len(body) >= 2 and rounds < max_rounds:
        chunk = max(1, len(body) // n)
        removed = False
        for i in range(0, len(body), chunk):
            cand = body[:i] + body[i + chunk:]
            rounds += 1
            if cand and fails(cand + ['end']):
                body = cand
                n = max(n - 1, 2)
                removed = True
                break
        if not removed:
            if chunk == 1:
                break
            n = min(n * 2, len(body))
    return body + ['end']


def with_snapshots(lines):
    """The same ops with a snapshot after every one (creation ops excepted), so that an oracle
    attributes a broken state to the op that broke it."""
    out = []
    for l in lines:
        if l in ('snapshot', 'end'):
            continue
        out.append(l)
        if not l.startswith('new'):
            out.append('snapshot')
    if not out or out[-1] != 'snapshot':
        out.append('snapshot')
    return out + ['end']


def load_corpus(prop):
    d = os.path.join(vlib.ROOT, 'corpus', prop)
    out = []
    if os.path.isdir(d):
        for fn in sorted(os.listdir(d)):
            if fn.endswith('.txt'):
                lines = [l.rstrip('\n') for l in open(os.path.join(d, fn)) if l.strip() and not l.startswith('#')]
                if lines and lines[-1] != 'end':
                    lines.append('end')
                out.append(lines)
    return out


def run(ctx, spec):
    """spec: gen(ctx) -> list of cases; oracle(case_lines, aligned ops) -> list of (tag, message);
    rule, assumptions, what; optional flavour."""
    prop = ctx.prop
    with vlib.Lock():
        admdrv = vlib.build_admdrv('plain')
        tr_ok, tr_out, tr_stats = vlib.translate()
        proof = vlib.coq_check_props(prop)
        use_model = getattr(spec, 'use_model', True)
        try:
            modeldrv = vlib.build_modeldrv() if use_model else None
        except vlib.CheckError as e:
            modeldrv = None
            ctx.notes.append('model does not build: %s' % str(e)[-800:])
    corpus = load_corpus(prop)
    cases = corpus + spec.gen(ctx)
    impl = run_cases(admdrv, cases)
    MSTATS.clear()
    model = run_cases(modeldrv, cases) if modeldrv else [None] * len(cases)
    ctx.model_stats = dict(MSTATS)
    # a case is compared up to the first call the harness declines to make on libadm ("unsupported")
    for k in range(len(cases)):
        if 'unsupported' in impl[k]:
            j = impl[k].index('unsupported')
            impl[k] = impl[k][:j]
            if model[k] is not None:
                model[k] = model[k][:j]
    disagreements = []
    findings = {}      # tag -> (case index, message)
    hist = {}
    nontrivial = set()
    exn_count = 0
    for k, (c, i) in enumerate(zip(cases, impl)):
        ops = split_ops(c, i)
        for op, r, _snap in ops:
            w = op.split()[0]
            hist[w] = hist.get(w, 0) + 1
            if r.startswith('exn'):
                hist[r] = hist.get(r, 0) + 1
                exn_count += 1
        for tag, msg in spec.oracle(c, ops):
            findings.setdefault(tag, (k, msg))
        if model[k] is not None and model[k] != i:
            disagreements.append(k)
        if spec.nontrivial(ops):
            nontrivial.add('\n'.join(c))
    found = False
    snapfn = with_snapshots if getattr(spec, 'snapshots', True) else (lambda lines: lines)
    for tag, (k, msg) in sorted(findings.items()):
        found = True

        def fails(lines, tag=tag):
            lines = snapfn(lines)
            out = run_cases(admdrv, [lines], shards=1)[0]
            return any(t == tag for t, _m in spec.oracle(lines, split_ops(lines, out)))
        small = snapfn(spec.shrink(cases[k], fails) if hasattr(spec, 'shrink') else shrink(cases[k], fails))
        out = run_cases(admdrv, [small], shards=1)[0]
        msgs = [m for t, m in spec.oracle(small, split_ops(small, out)) if t == tag]
        ctx.violation(msgs[0] if msgs else msg,
                      dict(kind='oracle', tag=tag, script=small, libadm_output=out, original_case=cases[k],
                           decoded=spec.describe(small) if hasattr(spec, 'describe') else None), tag=tag)
    if disagreements and not found:
        k = disagreements[0]

        def differs(lines):
            a = run_cases(admdrv, [lines], shards=1)[0]
            b = run_cases(modeldrv, [lines], shards=1)[0]
            if 'unsupported' in a:
                j = a.index('unsupported')
                a, b = a[:j], b[:j]
            return a != b
        small = shrink(cases[k], differs)
        a = run_cases(admdrv, [small], shards=1)[0]
        b = run_cases(modeldrv, [small], shards=1)[0]
        first = next((j for j, (x, y) in enumerate(zip(a, b)) if x != y), min(len(a), len(b)))
        ctx.violation('correspondence: model and libadm differ (first at output line %d: libadm %r, model %r) '
                      'but the property oracle finds no failing history'
                      % (first, a[first] if first < len(a) else None, b[first] if first < len(b) else None),
                      dict(kind='correspondence', correspondence=spec.what, script=small, libadm_output=a,
                           model_output=b, disagreeing_cases=len(disagreements)), found_input=False)
    if modeldrv is None and use_model and not found:
        ctx.violation('the executable model does not build, so the correspondence could not run',
                      dict(kind='model-build', notes=ctx.notes), found_input=False)
    if not tr_ok:
        ctx.violation('translator failed', dict(kind='translator', output=tr_out[-2000:]), found_input=False)
    vlib.proof_violations(ctx, proof, found)
    k0 = len(corpus)
    ctx.coverage.update(
        evaluations=len(cases), distinct_nontrivial=len(nontrivial), rule=spec.rule,
        samples=[cases[k0][:40]] if len(cases) > k0 else [cases[0][:40]],
        input_distribution=hist, programs=len(cases), disagreements_checked=len(disagreements),
        oracle_findings=len(findings), corpus_cases=len(corpus), exception_outcomes=exn_count,
        translator={k: v for k, v in tr_stats.get('PlansGen.v', {}).items() if k != 'rewritten'},
        exhaustive=False,
        explanation='theorems are universally quantified over histories of the model; the explored part validates '
                    'the model against libadm (full snapshots compared) and applies the property oracle to libadm')
    ctx.assumptions += spec.assumptions
    if hasattr(spec, 'extra'):
        spec.extra(ctx, proof, found)
    return ctx.finish(proof)


def replay(path, spec, prop):
    r = json.load(open(path))
    script = r.get('script')
    if not script:
        print('replay names a theorem or correspondence, not an input: %s' % r.get('kind'))
        return 1
    with vlib.Lock():
        admdrv = vlib.build_admdrv('plain')
    out = run_cases(admdrv, [script], shards=1)[0]
    print('\n'.join(script))
    print('--- libadm')
    print('\n'.join(out))
    probs = spec.oracle(script, split_ops(script, out))
    for t, m in probs:
        print('oracle: [%s] %s' % (t, m))
    if r.get('kind') == 'correspondence':
        with vlib.Lock():
            modeldrv = vlib.build_modeldrv()
        b = run_cases(modeldrv, [script], shards=1)[0]
        if b != out:
            print('model output differs')
            probs = probs or [('correspondence', 'differs')]
    if probs:
        print('VIOLATION property=%s replay=%s' % (prop, path))
    return 1 if probs else 0
