"""seed_table.py - the table of DESIGN.md section 14.6 from build/seed_sweep.txt and seeded/*/meta.json; also records
the detection result in each meta.json (field "detected")."""
import json
import os
import re

ROOT = os.path.dirname(os.path.dirname(os.path.abspath(__file__)))


def main():
    res = {}
    for l in open(os.path.join(ROOT, 'build', 'seed_sweep.txt')):
        m = re.match(r'^(C\d\d-[a-z]) rc=(\d+) violations=(\d+) without-input=(\d+) :: (.*)$', l.strip())
        if m:
            res[m.group(1)] = (int(m.group(2)), int(m.group(3)), int(m.group(4)), m.group(5))
    rows = ['| seed | change (summary of the author) | caught | how |', '|---|---|---|---|']
    for n in sorted(os.listdir(os.path.join(ROOT, 'seeded'))):
        mp = os.path.join(ROOT, 'seeded', n, 'meta.json')
        meta = json.load(open(mp))
        summ = re.sub(r'\s+', ' ', meta.get('summary', '')).strip()
        summ = (summ[:150] + '...') if len(summ) > 150 else summ
        if n in res:
            rc, v, nf, first = res[n]
            caught = 'yes' if v > 0 else 'NO'
            if v > 0 and nf == v:
                how = 'theorem / correspondence broken, no failing input found'
            elif v > 0:
                msg = re.sub(r'^VIOLATION property=\S+ replay=\S+ ', '', first)
                how = 'concrete input: ' + msg[:110].replace('|', '/')
            else:
                how = '-'
            meta['detected'] = dict(check='./check %s --tier quick' % n[:3], violations=v, without_concrete_input=nf, first=first[:300])
            json.dump(meta, open(mp, 'w'), indent=1)
        elif 'detected' in meta:
            dd = meta['detected']
            v, nf, first = dd.get('violations', 0), dd.get('without_concrete_input', 0), dd.get('first', '')
            caught = 'yes' if v > 0 else 'NO'
            if v > 0 and nf == v:
                how = 'theorem / correspondence broken, no failing input found'
            elif v > 0:
                how = 'concrete input: ' + re.sub(r'^VIOLATION property=\S+ replay=\S+ ', '', first)[:110].replace('|', '/')
            else:
                how = '-'
        else:
            caught, how = '?', 'not in the last sweep'
        rows.append('| %s | %s | %s | %s |' % (n, summ.replace('|', '/'), caught, how))
    print('\n'.join(rows))


if __name__ == '__main__':
    main()
