"""fuzzgen.py - C07: byte strings for the parsers: valid generated ADM files and SADM frames, structure-aware
garbage (ADM element names in random nesting with random attributes), and byte-level mutations of all of them.
Sizes up to 64 KiB, nesting depth up to 256."""
import random

import admxmlgen

ELEMS = ['audioFormatExtended', 'audioProgramme', 'audioContent', 'audioObject', 'audioPackFormat', 'audioChannelFormat',
         'audioStreamFormat', 'audioTrackFormat', 'audioTrackUID', 'audioBlockFormat', 'position', 'gain', 'frame',
         'frameHeader', 'frameFormat', 'transportTrackFormat', 'audioTrack', 'audioTrackUIDRef', 'changedIDs', 'profileList',
         'profile', 'coreMetadata', 'format', 'ebuCoreMain', 'ituADM', 'audioObjectInteraction', 'gainInteractionRange',
         'positionInteractionRange', 'loudnessMetadata', 'dialogue', 'frequency', 'speakerLabel', 'jumpPosition',
         'channelLock', 'objectDivergence', 'headphoneVirtualise', 'audioPackFormatIDRef', 'audioObjectIDRef',
         'audioContentIDRef', 'audioChannelFormatIDRef', 'audioStreamFormatIDRef', 'audioTrackFormatIDRef',
         'audioComplementaryObjectIDRef', 'positionOffset', 'audioProgrammeLabel', 'x']
ATTRS = ['audioObjectID', 'audioObjectName', 'audioPackFormatID', 'audioChannelFormatID', 'audioBlockFormatID', 'UID',
         'typeLabel', 'typeDefinition', 'formatLabel', 'formatDefinition', 'rtime', 'duration', 'lstart', 'lduration',
         'coordinate', 'bound', 'frameFormatID', 'start', 'type', 'timeReference', 'transportID', 'trackID', 'status',
         'importance', 'gainUnit', 'screenEdgeLock', 'flowID', 'countToFull', 'numMetadataChunks', 'language', 'x']
VALUES = ['AO_1001', 'AP_00031001', 'AC_00031001', 'AB_00031001_00000001', 'ATU_00000001', 'ATU_00000000', 'AT_00031001_01',
          'AS_00031001', 'APR_1001', 'ACO_1001', 'FF_00000001', 'FF_00000001_01', 'TP_0001', '0003', 'Objects', 'PCM', '0001',
          '00:00:00.00000', '00:00:01.0S48000', '00:00:00.0S0', 'azimuth', 'X', 'min', 'total', 'local', 'full', 'new', '1', '0',
          '-1', '99999999999999999999', '1e309', 'nan', '', ' ', 'AO_', 'AO_zzzz', 'AB_00031001_0000000g', '4294967296',
          '1.5', 'dB', 'left', 'top', 'x' * 300]
TOKENS = [b'<', b'>', b'</', b'/>', b'<!--', b'-->', b'<![CDATA[', b']]>', b'<?xml', b'?>', b'&', b'&amp;', b'&#x41;', b'&#0;',
          b'&#xffffffff;', b'"', b"'", b'=', b'\x00', b'\xff\xfe', b'\xef\xbb\xbf', b'<!DOCTYPE x [<!ENTITY a "b">]>', b'<frame>',
          b'</frame>', b'<frameHeader>', b'<audioFormatExtended>', b'</audioFormatExtended>']


def frame_file(rng):
    """An SADM frame written by hand: header plus a generated audioFormatExtended."""
    x, info = admxmlgen.gen_file(rng, size=rng.choice([1, 2]))
    tree = info['tree']
    tr = rng.choice(['total', 'local', None])
    ff = admxmlgen.Node('frameFormat', [('frameFormatID', rng.choice(['FF_00000001', 'FF_0000000a_01'])), ('start', '00:00:00.00000'),
                                        ('duration', '00:00:01.00000'), ('type', rng.choice(['full', 'header', 'intermediate', 'all', 'divided']))])
    if tr:
        ff.attr('timeReference', tr)
    if rng.random() < 0.5:
        ff.attr('flowID', 'flow')
    if rng.random() < 0.4:
        ch = admxmlgen.Node('changedIDs')
        ch.add(admxmlgen.Node('audioObjectIDRef', [('status', rng.choice(['new', 'changed', 'extended', 'expired']))], text='AO_1001'))
        ff.add(ch)
    hdr = admxmlgen.Node('frameHeader', kids=[ff])
    if rng.random() < 0.5:
        t = admxmlgen.Node('transportTrackFormat', [('transportID', 'TP_0001'), ('numTracks', '1'), ('numIDs', '1')])
        a = admxmlgen.Node('audioTrack', [('trackID', '1')])
        a.add(admxmlgen.Node('audioTrackUIDRef', text='ATU_00000001'))
        t.add(a)
        hdr.add(t)
    if tr == 'local':         # block times under a local reference use lstart / lduration
        for n, _p in walk(tree):
            n.attrs = [({'rtime': 'lstart', 'duration': 'lduration'}.get(k, k) if n.name == 'audioBlockFormat' else k, v) for k, v in n.attrs]
    kids = [hdr, tree] if rng.random() < 0.9 else [admxmlgen.Node('a'), hdr, tree]
    root = admxmlgen.Node('frame', kids=kids)
    if rng.random() < 0.2:
        core = admxmlgen.Node('coreMetadata', kids=[admxmlgen.Node('format', kids=[tree])])
        root = admxmlgen.Node('frame', kids=[hdr, core])
    return root.render(rng, 0, rng.random() < 0.7)


def walk(n, path=()):
    yield n, path
    for i, k in enumerate(n.kids):
        yield from walk(k, path + (i,))


def garbage_tree(rng, depth, budget):
    n = admxmlgen.Node(rng.choice(ELEMS))
    for _ in range(rng.randrange(0, 4)):
        n.attr(rng.choice(ATTRS), rng.choice(VALUES))
    if depth > 0:
        for _ in range(rng.randrange(0, 4)):
            if budget[0] <= 0:
                break
            budget[0] -= 1
            n.add(garbage_tree(rng, depth - 1, budget))
    if not n.kids and rng.random() < 0.5:
        n.text = rng.choice(VALUES)
    return n


def nested(rng):
    depth = rng.choice([8, 64, 200, 256])
    name = rng.choice(['a', 'frame', 'audioFormatExtended', 'ebuCoreMain', 'coreMetadata'])
    inner = rng.choice(['', '<audioFormatExtended/>', '<frameHeader/>', 'x'])
    return ('<%s>' % name) * depth + inner + ('</%s>' % name) * depth


def envelope(rng):
    """The envelope searches: root / coreMetadata / format / audioFormatExtended with each level missing, present
    once or present twice, optionally inside a frame with a header."""
    def level(names, depth):
        if depth == len(names):
            return rng.choice(['', '<audioObject audioObjectID="AO_1001" audioObjectName="n"/>'])
        out = ''
        for _ in range(rng.choice([0, 1, 1, 1, 2])):
            out += '<%s>%s</%s>' % (names[depth], level(names, depth + 1), names[depth])
        if rng.random() < 0.2:
            out += '<title>t</title>'
        return out
    chain = rng.choice([['coreMetadata', 'format', 'audioFormatExtended'], ['format', 'audioFormatExtended'],
                        ['coreMetadata', 'audioFormatExtended'], ['audioFormatExtended']])
    body = level(chain, 0)
    root = rng.choice(['ebuCoreMain', 'ituADM', 'frame', 'frame', 'x'])
    if root == 'frame' and rng.random() < 0.7:
        body = rng.choice(['<frameHeader/>', '<frameHeader><frameFormat frameFormatID="FF_00000001" start="00:00:00.00000" '
                           'duration="00:00:01.00000" type="full"/></frameHeader>']) + body
    return '<%s>%s</%s>' % (root, body, root)


def mutate(rng, data):
    data = bytearray(data)
    for _ in range(rng.choice([1, 1, 2, 4, 16])):
        if not data:
            break
        k = rng.randrange(9)
        i = rng.randrange(len(data))
        if k == 0:
            data[i] = rng.randrange(256)
        elif k == 1:
            j = min(len(data), i + rng.choice([1, 4, 32, 256]))
            del data[i:j]
        elif k == 2:
            j = min(len(data), i + rng.choice([4, 32, 256]))
            data[i:i] = data[i:j]
        elif k == 3:
            del data[i:]
        elif k == 4:
            data[i:i] = rng.choice(TOKENS)
        elif k == 5:
            data[i] ^= 1 << rng.randrange(8)
        elif k == 6:
            j = rng.randrange(len(data))
            a, b = min(i, j), max(i, j)
            data[a:b] = data[a:b][::-1] if b - a < 64 else data[a:b]
        elif k == 7:
            data[i:i] = rng.choice(VALUES).encode()
        else:
            data[i:i + 1] = b'>' if data[i:i + 1] == b'<' else b'<'
    return bytes(data[:65536])


FIXED = [b'<frame><a/></frame><b/>', b'<frame><a/><frameHeader/></frame>', b'', b'<', b'<a', b'<a></b>', b'\x00',
         b'<frame><frameHeader><frameFormat/></frameHeader></frame>', b'<ituADM/>', b'<frame/>',
         b'<ebuCoreMain><coreMetadata><format><audioFormatExtended/></format></coreMetadata></ebuCoreMain>',
         b'<audioFormatExtended><audioObject/></audioFormatExtended>',
         b'<frame><frameHeader><frameFormat frameFormatID="FF_00000001" start="00:00:00.00000" duration="00:00:01.00000" type="full"/>'
         b'</frameHeader><audioFormatExtended/></frame>']


def gen_inputs(rng, n):
    out = [('fixed', x) for x in FIXED]
    while len(out) < n:
        k = rng.random()
        if k < 0.15:
            out.append(('valid-file', admxmlgen.gen_file(rng, size=rng.choice([1, 2, 3]))[0].encode()))
        elif k < 0.25:
            out.append(('valid-frame', frame_file(rng).encode()))
        elif k < 0.45:
            t = garbage_tree(rng, rng.choice([2, 4, 8]), [rng.choice([10, 60, 300])])
            out.append(('garbage-tree', t.render(rng, 0, rng.random() < 0.5).encode()[:65536]))
        elif k < 0.47:
            out.append(('nested', nested(rng).encode()[:65536]))
        elif k < 0.55:
            out.append(('envelope', envelope(rng).encode()))
        elif k < 0.78:
            out.append(('mutated-file', mutate(rng, admxmlgen.gen_file(rng, size=rng.choice([1, 2]))[0].encode())))
        elif k < 0.9:
            out.append(('mutated-frame', mutate(rng, frame_file(rng).encode())))
        elif k < 0.95:
            out.append(('random-bytes', bytes(rng.randrange(256) for _ in range(rng.choice([1, 16, 200])))))
        else:
            big = admxmlgen.gen_file(rng, size=3)[0].encode()
            while len(big) < 60000:
                big += big
            out.append(('large', mutate(rng, big[:65536])))
    return out
