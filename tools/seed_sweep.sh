#!/bin/bash
# seed_sweep.sh - applies every seeded change under /verif/seeded in turn, runs the quick check of its property,
# undoes the change, and records whether a violation was reported (and whether with a concrete input).
cd /verif
out=/verif/build/seed_sweep.txt
# with arguments: only these seeds (results are appended; seed_table.py keeps the last line per seed and falls back to
# the result recorded in meta.json for the others)
if [ $# -gt 0 ]; then list=""; for n in "$@"; do list="$list seeded/$n/"; done; else list=$(ls -d seeded/*/); : > $out; fi
for d in $list; do
  n=$(basename $d); p=${n%-*}
  git -C /repo apply /verif/$d/patch.diff || { echo "$n APPLY-FAILED" >> $out; continue; }
  ./check $p --tier quick > /verif/build/sweep_$n.log 2>&1; rc=$?
  git -C /repo checkout -- .
  v=$(grep -c "^VIOLATION" /verif/build/sweep_$n.log)
  nf=$(grep "^VIOLATION" /verif/build/sweep_$n.log | grep -c "no-failing-input-found")
  first=$(grep "^VIOLATION" /verif/build/sweep_$n.log | head -1 | cut -c1-260)
  echo "$n rc=$rc violations=$v without-input=$nf :: $first" >> $out
done
echo DONE >> $out
