#!/bin/bash
# try_seed.sh <patch.diff> <property> [tier] - apply a seeded change to /repo, run the check, undo the change.
set -u
patch="$1"; prop="$2"; tier="${3:-quick}"
cd /verif
git -C /repo apply "$patch" || { echo "patch does not apply"; exit 3; }
./check "$prop" --tier "$tier" > /tmp/try_seed_out.txt 2>&1
rc=$?
git -C /repo checkout -- .
grep -E "VIOLATION|KNOWN-FINDING|CHECK-ERROR|violation\(s\)" /tmp/try_seed_out.txt | cut -c1-400
echo "exit=$rc"
