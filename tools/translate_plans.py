"""translate_plans.py - PlansGen.v: what Document::add recurses into and what Document::remove strips,
read from src/document.cpp statement by statement.  Unrecognised statements are reported in
`plans_problems`, which the theorems require to be empty (fail closed)."""
import re

from translate import read, strip_comments, coq_str

KINDS = {'AudioProgramme': 'KProg', 'AudioContent': 'KCont', 'AudioObject': 'KObj', 'AudioPackFormat': 'KPack',
         'AudioChannelFormat': 'KChan', 'AudioStreamFormat': 'KStream', 'AudioTrackFormat': 'KTrack',
         'AudioTrackUid': 'KUid'}
MEMBER_LISTS = {'audioProgrammes_': 'KProg', 'audioContents_': 'KCont', 'audioObjects_': 'KObj',
                'audioPackFormats_': 'KPack', 'audioChannelFormats_': 'KChan', 'audioStreamFormats_': 'KStream',
                'audioTrackFormats_': 'KTrack', 'audioTrackUids_': 'KUid'}
# (source kind, destination kind) -> reference kind for plain references
REF = {('KProg', 'KCont'): 'ProgCont', ('KCont', 'KObj'): 'ContObj', ('KObj', 'KObj'): 'ObjObj',
       ('KObj', 'KPack'): 'ObjPack', ('KObj', 'KUid'): 'ObjUid', ('KPack', 'KPack'): 'PackPack',
       ('KPack', 'KChan'): 'PackChan', ('KStream', 'KChan'): 'StreamChan', ('KStream', 'KPack'): 'StreamPack',
       ('KStream', 'KTrack'): 'StreamTrack', ('KTrack', 'KStream'): 'TrackStream', ('KUid', 'KTrack'): 'UidTrack',
       ('KUid', 'KPack'): 'UidPack', ('KUid', 'KChan'): 'UidChan'}
ALL_KINDS = ['KProg', 'KCont', 'KObj', 'KPack', 'KChan', 'KStream', 'KTrack', 'KUid']


def function_bodies(src, name):
    """[(param type, param name, body)] of every `bool Document::<name>(std::shared_ptr<T> p) {...}`."""
    out = []
    for m in re.finditer(r'bool\s+Document::%s\s*\(\s*std::shared_ptr<\s*(\w+)\s*>\s*(\w+)\s*\)\s*\{' % name, src):
        i = m.end()
        depth = 1
        j = i
        while j < len(src) and depth:
            if src[j] == '{':
                depth += 1
            elif src[j] == '}':
                depth -= 1
            j += 1
        out.append((m.group(1), m.group(2), src[i:j - 1]))
    return out


def split_statements(body):
    """Top-level statements of a block: `...;` or `<head> {...}` (with else chains kept together)."""
    stmts = []
    i = 0
    n = len(body)
    cur_start = None
    depth_paren = 0
    while i < n:
        c = body[i]
        if cur_start is None:
            if c.isspace():
                i += 1
                continue
            cur_start = i
        if c == '(':
            depth_paren += 1
        elif c == ')':
            depth_paren -= 1
        elif c == ';' and depth_paren == 0:
            stmts.append(body[cur_start:i + 1].strip())
            cur_start = None
        elif c == '{' and depth_paren == 0:
            depth = 1
            j = i + 1
            while j < n and depth:
                if body[j] == '{':
                    depth += 1
                elif body[j] == '}':
                    depth -= 1
                j += 1
            # else chain?
            k = j
            while k < n and body[k].isspace():
                k += 1
            if body.startswith('else', k):
                i = k + 4
                continue
            stmts.append(body[cur_start:j].strip())
            cur_start = None
            i = j
            continue
        i += 1
    if cur_start is not None and body[cur_start:].strip():
        stmts.append(body[cur_start:].strip())
    return stmts


def norm(s):
    return re.sub(r'\s+', ' ', s).strip()


def parse_add(kind, param, body, problems):
    """Returns the ordered list of reference kinds add() recurses into."""
    b = norm(body)
    m = re.match(r'if \(!checkParent\(%s, "\w+"\)\) \{(.*)\} else \{ return false; \}$' % param, b)
    if not m:
        problems.append('add(%s): outer checkParent structure not recognised' % kind)
        return []
    inner = m.group(1)
    refs = []
    for st in split_statements(inner):
        st = norm(st)
        if re.match(r'idAssigner_\.assignId\(\*%s\);$' % param, st):
            continue
        if re.match(r'\w+Attorney::setParent\(%s, shared_from_this\(\)\);$' % param, st):
            continue
        if re.match(r'audio\w+_\.push_back\(%s\);$' % param, st):
            continue
        if st == 'return true;':
            continue
        mm = re.match(r'for \(auto& (\w+) : %s->getReferences<(\w+)>\(\)\) \{ add\(\1\); \}$' % param, st)
        if mm and mm.group(2) in KINDS and (kind, KINDS[mm.group(2)]) in REF:
            refs.append(REF[(kind, KINDS[mm.group(2)])])
            continue
        mm = re.match(r'for \(auto& (\w+) : %s->getComplementaryObjects\(\)\) \{ add\(\1\); \}$' % param, st)
        if mm and kind == 'KObj':
            refs.append('ObjCompl')
            continue
        mm = re.match(r'for \(auto& (\w+) : %s->getAudioTrackFormatReferences\(\)\) \{ auto (\w+) = \1\.lock\(\); '
                      r'if \(\2\) \{ add\(\2\); \} \}$' % param, st)
        if mm and kind == 'KStream':
            refs.append('StreamTrack')
            continue
        mm = re.match(r'auto (\w+) = %s->getReference<(\w+)>\(\);$' % param, st)
        if mm and mm.group(2) in KINDS and (kind, KINDS[mm.group(2)]) in REF:
            refs.append(('pending', mm.group(1), REF[(kind, KINDS[mm.group(2)])]))
            continue
        mm = re.match(r'if \((\w+)\) \{ add\(\1\); \}$', st)
        if mm:
            for idx, r in enumerate(refs):
                if isinstance(r, tuple) and r[1] == mm.group(1):
                    refs[idx] = r[2]
                    break
            else:
                problems.append('add(%s): add of unknown variable: %s' % (kind, st))
            continue
        if kind == 'KTrack' and re.match(r'auto it = std::find\(audioTrackFormats_\.begin\(\), audioTrackFormats_\.end\(\), '
                                         r'%s\);$' % param, st):
            continue
        if kind == 'KTrack' and st == 'if (it != audioTrackFormats_.end()) { return true; }':
            continue
        problems.append('add(%s): statement not recognised: %s' % (kind, st[:100]))
    for r in refs:
        if isinstance(r, tuple):
            problems.append('add(%s): reference %s fetched but never added' % (kind, r[2]))
    return [r for r in refs if not isinstance(r, tuple)]


def parse_remove(kind, param, body, problems):
    b = norm(body)
    m = re.match(r'auto it = std::find\((\w+)\.begin\(\), \1\.end\(\), %s\); if \(it != \1\.end\(\)\) \{(.*)\} '
                 r'return false;$' % param, b)
    if not m or MEMBER_LISTS.get(m.group(1)) != kind:
        problems.append('remove(%s): outer find structure not recognised' % kind)
        return []
    lst = m.group(1)
    plan = []
    for st in split_statements(m.group(2)):
        st = norm(st)
        if st == '%s.erase(it);' % lst:
            continue
        if re.match(r'\w+Attorney::setParent\(%s, \{\}\);$' % param, st):
            continue
        if st == 'return true;':
            continue
        mm = re.match(r'for \(auto& (\w+) : (\w+)\) \{ \1->(removeReference|removeComplementary)\(%s\); \}$' % param, st)
        if mm and mm.group(2) in MEMBER_LISTS:
            lister = MEMBER_LISTS[mm.group(2)]
            if mm.group(3) == 'removeComplementary' and lister == 'KObj' and kind == 'KObj':
                plan.append(('ObjCompl', 'EraseFirst'))
                continue
            if mm.group(3) == 'removeReference' and (lister, kind) in REF:
                plan.append((REF[(lister, kind)], 'EraseFirst'))
                continue
        mm = re.match(r'for \(auto& (\w+) : (\w+)\) \{ auto (\w+) = \1->getReferences<(\w+)>\(\); '
                      r'auto (\w+) = std::count\(\3\.begin\(\), \3\.end\(\), %s\); '
                      r'for \(; \5 > 0; --\5\) \{ \1->removeReference\(%s\); \} \}$' % (param, param), st)
        if mm and mm.group(2) in MEMBER_LISTS and KINDS.get(mm.group(4)) == kind:
            lister = MEMBER_LISTS[mm.group(2)]
            if (lister, kind) in REF:
                plan.append((REF[(lister, kind)], 'EraseAll'))
                continue
        mm = re.match(r'for \(auto& (\w+) : (\w+)\) \{ if \(\1->getReference<(\w+)>\(\) == %s\) '
                      r'\{ \1->removeReference<\3>\(\); \} \}$' % param, st)
        if mm and mm.group(2) in MEMBER_LISTS and KINDS.get(mm.group(3)) == kind:
            lister = MEMBER_LISTS[mm.group(2)]
            if (lister, kind) in REF:
                plan.append((REF[(lister, kind)], 'UnsetIfEq'))
                continue
        problems.append('remove(%s): statement not recognised: %s' % (kind, st[:100]))
    return plan


def gen_plans(repo):
    src = strip_comments(read(repo, 'src/document.cpp'))
    problems = []
    add = {}
    rem = {}
    for ty, param, body in function_bodies(src, 'add'):
        if ty in KINDS:
            if KINDS[ty] in add:
                problems.append('add(%s) defined twice' % ty)
            add[KINDS[ty]] = parse_add(KINDS[ty], param, body, problems)
    for ty, param, body in function_bodies(src, 'remove'):
        if ty in KINDS:
            if KINDS[ty] in rem:
                problems.append('remove(%s) defined twice' % ty)
            rem[KINDS[ty]] = parse_remove(KINDS[ty], param, body, problems)
    for k in ALL_KINDS:
        if k not in add:
            problems.append('Document::add overload for %s not found' % k)
        if k not in rem:
            problems.append('Document::remove overload for %s not found' % k)
    # the track format overload adds its stream format first (special order, modelled by hand)
    if add.get('KTrack') not in ([], ['TrackStream']):
        problems.append('add(KTrack): unexpected shape')
    lines = ['(* GENERATED by tools/translate_plans.py from src/document.cpp - do not edit *)',
             'From Adm Require Import Heap.Exec.', '',
             'Definition gen_add_plan (k : kind) : list refkind :=', '  match k with']
    for k in ALL_KINDS:
        lines.append('  | %s => [%s]' % (k, '; '.join(add.get(k, []))))
    lines += ['  end.', '', 'Definition gen_remove_plan (k : kind) : list (refkind * action) :=', '  match k with']
    for k in ALL_KINDS:
        lines.append('  | %s => [%s]' % (k, '; '.join('(%s, %s)' % p for p in rem.get(k, []))))
    lines += ['  end.', '', 'Definition gen_plans : plans := mkPlans gen_add_plan gen_remove_plan.',
              'Definition plans_problems : list (list N) := [%s].' % '; '.join(coq_str(p) for p in problems), '']
    stats = dict(add={k: add.get(k) for k in ALL_KINDS}, remove={k: rem.get(k) for k in ALL_KINDS}, problems=problems)
    return '\n'.join(lines), stats


GENERATORS = {'PlansGen.v': gen_plans}
