"""C01 - written XML re-parses and re-writes to byte-identical XML: see tools/xmlspecs.py (C01) and
coq/Props/Properties_C01.v."""
import heapcheck
import xmlspecs


def run(ctx):
    return heapcheck.run(ctx, xmlspecs.SPECS['C01'])


def replay(path):
    return heapcheck.replay(path, xmlspecs.SPECS['C01'], 'C01')
