"""C10 - ID strings and ID values convert both ways without loss; malformed IDs fail.

Proof: coq/Props/Properties_C10.v (generic over the descriptors regenerated from the
IdTraits/IdSection specialisations).  Tie: translator (descriptors) + correspondence of the
generic template (extracted model vs libadm on the same cases).  Oracle on libadm: an
independent reference grammar of the eleven ID formats written from BS.2076 (below),
plus a second pass parse(format(v)) = v through libadm itself.
"""
import binascii
import json
import os
import sys

import vlib

# reference grammar, independent of libadm and of the model: prefix, then fields (name, hex width,
# max value or None) separated by '_' where the list has a None entry
REF = {
    'AudioProgrammeId': ('APR_', [('x', 4, None)]),
    'AudioContentId': ('ACO_', [('x', 4, None)]),
    'AudioObjectId': ('AO_', [('x', 4, None)]),
    'AudioPackFormatId': ('AP_', [('y', 4, 5), ('x', 4, None)]),
    'AudioChannelFormatId': ('AC_', [('y', 4, 5), ('x', 4, None)]),
    'AudioBlockFormatId': ('AB_', [('y', 4, 5), ('x', 4, None), None, ('z', 8, None)]),
    'AudioStreamFormatId': ('AS_', [('y', 4, 5), ('x', 4, None)]),
    'AudioTrackFormatId': ('AT_', [('y', 4, 5), ('x', 4, None), None, ('z', 2, None)]),
    'AudioTrackUidId': ('ATU_', [('x', 8, None)]),
    'TransportId': ('TP_', [('x', 4, None)]),
}
FF_SHORT = ('FF_', [('x', 8, None)])
FF_LONG = ('FF_', [('x', 8, None), None, ('z', 2, None)])
HEX = '0123456789abcdefABCDEF'


def fields(spec):
    return [f for f in spec[1] if f is not None]


def ref_format_spec(spec, vals):
    fs = fields(spec)
    if len(vals) != len(fs):
        return None
    out = spec[0]
    it = iter(vals)
    for f in spec[1]:
        if f is None:
            out += '_'
            continue
        v = next(it)
        if v >= 16 ** f[1] or (f[2] is not None and v > f[2]):
            return None
        out += '%0*x' % (f[1], v)
    return out


def ref_parse_spec(spec, s):
    pos = 0
    if not s.startswith(spec[0]):
        return None
    pos = len(spec[0])
    vals = []
    for f in spec[1]:
        if f is None:
            if s[pos:pos + 1] != '_':
                return None
            pos += 1
            continue
        chunk = s[pos:pos + f[1]]
        if len(chunk) != f[1] or any(c not in HEX for c in chunk):
            return None
        v = int(chunk, 16)
        if f[2] is not None and v > f[2]:
            return None
        vals.append(v)
        pos += f[1]
    if pos != len(s):
        return None
    return vals


def ref_format(ty, vals):
    if ty == 'FrameFormatId':
        # FrameIndex in [1,0xFFFFFFFF], ChunkIndex in [1,0xFF] (FrameFormatId's constructor)
        if any(v == 0 for v in vals):
            return None
        return ref_format_spec(FF_LONG if len(vals) == 2 else FF_SHORT, vals)
    return ref_format_spec(REF[ty], vals)


def ref_parse(ty, s):
    if ty == 'FrameFormatId':
        r = None
        if len(s) == 14:
            r = ref_parse_spec(FF_LONG, s)
        elif len(s) == 11:
            r = ref_parse_spec(FF_SHORT, s)
        if r is not None and any(v == 0 for v in r):
            return None
        return r
    return ref_parse_spec(REF[ty], s)


def hexs(s):
    return binascii.hexlify(s.encode('latin-1')).decode()


def unhex(h):
    return binascii.unhexlify(h).decode('latin-1')


def expected_line(case):
    t = case.split()
    if t[0] == 'idformat':
        r = ref_format(t[1], [int(x) for x in t[2:]])
        return 'err' if r is None else 'ok ' + hexs(r)
    r = ref_parse(t[1], unhex(t[2]) if len(t) > 2 else '')
    return 'err' if r is None else 'ok ' + ' '.join(str(v) for v in r)


def agrees(case, got, want):
    """The property allows any hex-digit case in formatted output; everything else is exact."""
    if got == want:
        return True
    t = case.split()
    if t[0] == 'idformat' and got.startswith('ok ') and want.startswith('ok '):
        try:
            g, w = unhex(got[3:]), unhex(want[3:])
        except Exception:
            return False
        plen = w.index('_') + 1
        return g[:plen] == w[:plen] and g[plen:].lower() == w[plen:].lower()
    return False


def randcase(rng, s):
    return ''.join(c.upper() if rng.random() < 0.5 else c for c in s)


def boundary32(rng, n):
    vals = {0, 1, 2 ** 32 - 1, 2 ** 32 - 2, 0x1000, 0xffff, 0x10000}
    for k in range(1, 32):
        vals.update((2 ** k, 2 ** k - 1, 2 ** k + 1))
    vals = [v for v in vals if 0 <= v < 2 ** 32]
    while len(vals) < n:
        k = rng.randrange(1, 33)
        vals.append(rng.randrange(2 ** k))
    return vals[:n]


def all_types():
    return list(REF) + ['FrameFormatId']


def spec_of(ty, rng=None):
    if ty == 'FrameFormatId':
        return FF_LONG if (rng is None or rng.random() < 0.5) else FF_SHORT
    return REF[ty]


def gen_cases(ctx):
    rng = ctx.rng
    cases = []
    hist = {}

    def add(kind, line):
        cases.append(line)
        hist[kind] = hist.get(kind, 0) + 1

    def rand_other(f):
        if f[2] is not None:
            return rng.randrange(f[2] + 1)
        return rng.randrange(16 ** f[1])

    quick = ctx.quick()
    for ty in all_types():
        for spec in ([FF_SHORT, FF_LONG] if ty == 'FrameFormatId' else [REF[ty]]):
            fs = fields(spec)
            for k, f in enumerate(fs):
                if f[1] <= 4:
                    sweep = range(16 ** f[1])          # exhaustive: every 16-bit / 8-bit field value
                    kind = 'exhaustive-%d-bit' % (4 * f[1])
                else:
                    sweep = boundary32(rng, 4000 if quick else 400000)
                    kind = 'sampled-32-bit'
                for v in sweep:
                    vals = [rand_other(g) for g in fs]
                    vals[k] = v
                    add(kind + '-format', 'idformat %s %s' % (ty, ' '.join(map(str, vals))))
                    if f[2] is not None and v > f[2]:
                        # type field above 5: the string is still well-shaped
                        s = spec[0]
                        it = iter(vals)
                        for g in spec[1]:
                            s += '_' if g is None else '%0*x' % (g[1], next(it))
                    else:
                        vv = [min(x, g[2]) if g[2] is not None else x for x, g in zip(vals, fs)]
                        vv[k] = v
                        s = ref_format_spec(spec, vv)
                    add(kind + '-parse', 'idparse %s %s' % (ty, hexs(randcase(rng, s))))
                # values too wide for the field
                if f[1] < 8:
                    for v in [16 ** f[1], 16 ** f[1] + 1, 2 ** 32 - 1] + [rng.randrange(16 ** f[1], 2 ** 32) for _ in range(20)]:
                        vals = [rand_other(g) for g in fs]
                        vals[k] = v
                        add('too-wide-format', 'idformat %s %s' % (ty, ' '.join(map(str, vals))))
    # strings near the grammar: every single edit and sampled double edits of valid IDs
    alphabet = '0123456789abcdefABCDEFgGxyz_-: .\t\n\x00'
    nvalid = 12 if quick else 200
    ndouble = 40 if quick else 300
    for ty in all_types():
        for _ in range(nvalid):
            spec = spec_of(ty, rng)
            s = randcase(rng, ref_format_spec(spec, [rand_other(g) for g in fields(spec)]))
            edits = set()
            for i in range(len(s) + 1):
                for c in alphabet:
                    edits.add(s[:i] + c + s[i:])
                    if i < len(s):
                        edits.add(s[:i] + c + s[i + 1:])
                if i < len(s):
                    edits.add(s[:i] + s[i + 1:])
            edits = sorted(edits)
            for e in edits:
                add('edit-distance-1', 'idparse %s %s' % (ty, hexs(e)))
            for _ in range(ndouble):
                e = rng.choice(edits)
                i = rng.randrange(len(e) + 1)
                op = rng.randrange(3)
                c = rng.choice(alphabet)
                e2 = e[:i] + c + e[i:] if op == 0 else (e[:i] + c + e[i + 1:] if op == 1 else e[:i] + e[i + 1:])
                add('edit-distance-2', 'idparse %s %s' % (ty, hexs(e2)))
        # other types' IDs and the empty string
        for other in all_types():
            spec = spec_of(other, rng)
            add('foreign-id', 'idparse %s %s' % (ty, hexs(ref_format_spec(spec, [rand_other(g) for g in fields(spec)]))))
        add('empty', 'idparse %s' % ty)
    # ID objects built the long way round: default construction, set(), unset()
    for ty in REF:
        fs = fields(REF[ty])
        add('object-default', 'idself %s default' % ty)
        for _ in range(20):
            vals = ' '.join(str(rand_other(g)) for g in fs)
            add('object-set', 'idself %s set %s' % (ty, vals))
            add('object-unset', 'idself %s unset %s' % (ty, vals))
    return cases, hist


def self_check(case, line):
    """idself cases: the formatted text must be the text of the values get<>() reports, and
    parse(format(id)) must compare equal to id."""
    t = case.split()
    r = line.split()
    nf = len(fields(REF[t[1]]))
    if len(r) != nf + 3 or r[0] != 'ok':
        return 'ok <text> <values> eq'
    vals = [int(x) for x in r[2:2 + nf]]
    want = ref_format(t[1], vals)
    if t[2] == 'set' and vals != [int(x) for x in t[3:]]:
        return 'get<>() to return the values that were set: %s' % ' '.join(t[3:])
    if want is None or not agrees('idformat x', 'ok ' + r[1], 'ok ' + hexs(want)) or r[-1] != 'eq':
        return 'ok %s %s eq' % (hexs(want) if want else '<text>', ' '.join(map(str, vals)))
    return None


def describe(case):
    t = case.split()
    if t[0] == 'idself':
        return '%s built by %s(%s): format, values, parse(format(id)) == id' % (t[1], t[2], ', '.join(t[3:]))
    if t[0] == 'idparse':
        return 'parse%s(%r)' % (t[1], unhex(t[2]) if len(t) > 2 else '')
    return 'format%s(%s)' % (t[1], ', '.join(t[2:]))


class Spec:
    gen_key = 'IdTraitsGen.v'
    what = 'extracted drv_id_parse/drv_id_format vs libadm parseXxxId/formatId'
    rule = ('cases: every value of every 16-bit and 8-bit field of the eleven ID types (format and parse of an '
            'independently formatted mixed-case string), sampled 32-bit values at power-of-two boundaries, values too '
            'wide for their field, all single edits and sampled double edits of valid IDs, foreign IDs, the empty '
            'string; non-trivial = distinct cases on which libadm returns a value rather than an exception')
    assumptions = ['C++ unsigned is 32 bits: field values above 2^32-1 are not representable and not generated',
                   'the reference ID grammar in tools/props/c10.py transcribes the eleven BS.2076 ID formats']
    gen_cases = staticmethod(gen_cases)
    expected = staticmethod(expected_line)
    agrees = staticmethod(agrees)
    describe = staticmethod(describe)
    self_check = staticmethod(self_check)

    @staticmethod
    def impl_only(case):
        return case.startswith('idself')

    @staticmethod
    def classify(case):
        t = case.split()
        return t[0] + ' ' + t[1]

    @staticmethod
    def second_pass(case, impl_line):
        # what libadm formats, libadm parses back to the same values
        if case.startswith('idformat') and impl_line.startswith('ok '):
            t = case.split()
            return ('idparse %s %s' % (t[1], impl_line[3:]), 'ok ' + ' '.join(t[2:]))
        return None


def run(ctx):
    import codeccheck
    return codeccheck.run(ctx, Spec)


def replay(path):
    import codeccheck
    return codeccheck.replay(path, Spec, 'C10')
