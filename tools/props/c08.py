"""C08 - the parser rejects inconsistent files: tools/xmlspecs.py (C08), tools/faultgen.py, coq/Props/Properties_C08.v."""
import heapcheck
import xmlspecs


def run(ctx):
    return heapcheck.run(ctx, xmlspecs.SPECS['C08'])


def replay(path):
    return heapcheck.replay(path, xmlspecs.SPECS['C08'], 'C08')
