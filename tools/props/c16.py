"""C16 - see tools/heapspecs.py (C16) and tools/heapcheck.py; theorems in coq/Props/Properties_C16.v."""
import heapcheck
import heapspecs


def run(ctx):
    return heapcheck.run(ctx, heapspecs.SPECS['C16'])


def replay(path):
    return heapcheck.replay(path, heapspecs.SPECS['C16'], 'C16')
