"""C04 - see tools/heapspecs.py (C04) and tools/heapcheck.py; theorems in coq/Props/Properties_C04.v."""
import heapcheck
import heapspecs


def run(ctx):
    return heapcheck.run(ctx, heapspecs.SPECS['C04'])


def replay(path):
    return heapcheck.replay(path, heapspecs.SPECS['C04'], 'C04')
