"""C18 - see tools/heapspecs.py (C18) and tools/heapcheck.py; theorems in coq/Props/Properties_C18.v."""
import heapcheck
import heapspecs


def run(ctx):
    return heapcheck.run(ctx, heapspecs.SPECS['C18'])


def replay(path):
    return heapcheck.replay(path, heapspecs.SPECS['C18'], 'C18')
