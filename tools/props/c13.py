"""C13 - results depend on content only, never on memory layout: tools/xmlspecs.py (C13), tools/translate_layout.py,
harness/cpp/perturb.cpp, coq/Props/Properties_C13.v."""
import heapcheck
import xmlspecs


def run(ctx):
    return heapcheck.run(ctx, xmlspecs.SPECS['C13'])


def replay(path):
    return heapcheck.replay(path, xmlspecs.SPECS['C13'], 'C13')
