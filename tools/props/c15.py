"""C15 - timecodes survive formatting and parsing exactly.

Proof: coq/Props/Properties_C15.v.  Tie: correspondence (hand-written model of src/elements/time.cpp).
Oracle on libadm: an independent Python formatter/recogniser of BS.2076 timecodes, plus the second
pass parse(format(t)) = t through libadm itself.
"""
import binascii
import re

NS_LIMIT = 360000 * 10 ** 9
STRICT = re.compile(r'([0-9]{2}):([0-9]{2}):([0-9]{2})\.([0-9]+)(?:S([0-9]+))?\Z')
LAX = re.compile(r'([0-9]{2}):([0-9]{2}):([0-9]{2})[^\n\r]([0-9]+)(?:S([0-9]+))?\Z')
INT_MAX = 2 ** 31 - 1


def hexs(s):
    return binascii.hexlify(s.encode('latin-1')).decode()


def unhex(h):
    return binascii.unhexlify(h).decode('latin-1')


def ref_format_ns(n):
    sec, sub = divmod(n, 10 ** 9)
    frac = '%09d' % sub
    while len(frac) > 5 and frac.endswith('0'):
        frac = frac[:-1]
    return '%02d:%02d:%02d.%s' % (sec // 3600, (sec // 60) % 60, sec % 60, frac)


def ref_format_frac(n, d):
    whole, fn = divmod(n, d)
    return '%02d:%02d:%02d.%dS%d' % (whole // 3600, (whole // 60) % 60, whole % 60, fn, d)


def expected(case):
    t = case.split()
    if t[0] == 'timeformat':
        if t[1] == 'ns':
            n = int(t[2])
            return 'ok ' + hexs(ref_format_ns(n)) if 0 <= n < NS_LIMIT else None
        n, d = int(t[2]), int(t[3])
        if d < 1:
            return 'err'
        return 'ok ' + hexs(ref_format_frac(n, d)) if (d < 2 ** 31 and 0 <= n < 360000 * d) else None
    s = unhex(t[1]) if len(t) > 1 else ''
    m = STRICT.match(s)
    if m:
        hh, mm, ss = int(m.group(1)), int(m.group(2)), int(m.group(3))
        if m.group(5) is None:
            if mm > 59 or ss > 59 or not (5 <= len(m.group(4)) <= 9):
                return None     # laxness of the recogniser: the property does not decide these
            return 'ok ns %d' % ((hh * 3600 + mm * 60 + ss) * 10 ** 9 + int((m.group(4) + '0' * 9)[:9]))
        num, den = int(m.group(4)), int(m.group(5))
        if den == 0:
            return 'err'
        if num > INT_MAX or den > INT_MAX or mm > 59 or ss > 59:
            return None
        return 'ok frac %d %d' % ((hh * 3600 + mm * 60 + ss) * den + num, den)
    if LAX.match(s):
        m = LAX.match(s)
        if m.group(5) is not None and int(m.group(5)) == 0:
            return 'err'
        return None             # any separator character: accepted by the implementation, not forbidden
    return 'err'                # wrong widths, non-digit fields, missing parts, trailing garbage


def gen_cases(ctx):
    rng = ctx.rng
    quick = ctx.quick()
    cases, hist = [], {}

    def add(kind, line):
        cases.append(line)
        hist[kind] = hist.get(kind, 0) + 1

    def ns_both(kind, n):
        add(kind + '-format', 'timeformat ns %d' % n)
        add(kind + '-parse', 'timeparse ' + hexs(ref_format_ns(n)))

    suffixes = [0, 1, 10, 100, 1000, 9999, 5000, 9000, 9990, 900]
    # every five-digit prefix of the sub-second part, crossed with trimming-boundary suffixes
    for prefix in range(10 ** 5):
        for suf in (rng.sample(suffixes, 2) if quick else suffixes):
            ns_both('prefix-x-trim', rng.randrange(360000) * 10 ** 9 + prefix * 10 ** 4 + suf)
    # every second of [0, 100 h) with sampled sub-second values
    per = 1 if quick else 5
    for sec in range(360000):
        for _ in range(per):
            k = rng.randrange(10)
            sub = rng.randrange(10 ** k) * 10 ** (9 - k) if k else 0
            ns_both('every-second', sec * 10 ** 9 + sub)
    # digit boundaries, exhaustively
    for j in range(15):
        for a in (1, 9, 10, 59, 60, 99, 36, 35, 359):
            for delta in (-1, 0, 1):
                n = a * 10 ** j + delta
                if 0 <= n < NS_LIMIT:
                    ns_both('digit-boundary', n)
    for n in (0, 1, NS_LIMIT - 1, 3599999999999, 3600000000000, 59999999999, 60000000000, 86399999999999,
              86400000000000, 2 ** 31, 2 ** 31 - 1, 2 ** 32, 2 ** 33 + 1):
        ns_both('digit-boundary', n)
    # fractions
    dens = [1, 2, 25, 30, 1001, 30000, 44100, 48000, 96000, 10 ** 9, 2 ** 31 - 1, 2 ** 30, 2 ** 16]
    nfr = 100000 if quick else 1000000
    for _ in range(nfr):
        d = rng.choice(dens) if rng.random() < 0.6 else rng.randrange(1, 2 ** 31)
        r = rng.random()
        if r < 0.3:
            n = rng.randrange(360000) * d + rng.choice([0, 1, d - 1, d // 2])
        elif r < 0.4:
            n = rng.choice([0, 1, 360000 * d - 1, d, d - 1, d + 1])
        else:
            n = rng.randrange(360000 * d)
        n = max(0, min(n, 360000 * d - 1))
        add('fraction-format', 'timeformat frac %d %d' % (n, d))
        add('fraction-parse', 'timeparse ' + hexs(ref_format_frac(n, d)))
    for d in (0, -1, -48000):
        add('fraction-bad-denominator', 'timeformat frac 5 %d' % d)
    # strings near the grammar
    alphabet = '0123456789:.S,s;- \t\n\rxa/\x00'
    nvalid = 30 if quick else 300
    ndouble = 200 if quick else 600
    for k in range(nvalid):
        if k % 2:
            d = rng.choice(dens)
            s = ref_format_frac(rng.randrange(360000 * d), d)
        else:
            s = ref_format_ns(rng.randrange(NS_LIMIT))
        edits = set()
        for i in range(len(s) + 1):
            for c in alphabet:
                edits.add(s[:i] + c + s[i:])
                if i < len(s):
                    edits.add(s[:i] + c + s[i + 1:])
            if i < len(s):
                edits.add(s[:i] + s[i + 1:])
        edits = sorted(edits)
        for e in edits:
            add('edit-distance-1', 'timeparse ' + hexs(e))
        for _ in range(ndouble):
            e = rng.choice(edits)
            i = rng.randrange(len(e) + 1)
            op = rng.randrange(3)
            c = rng.choice(alphabet)
            e2 = e[:i] + c + e[i:] if op == 0 else (e[:i] + c + e[i + 1:] if op == 1 else e[:i] + e[i + 1:])
            add('edit-distance-2', 'timeparse ' + hexs(e2))
    for s in ['', '00:00:00', '00:00:00.', '00:00:00.0S0', '00:00:00.5S00', '00:00:01.5S2147483648',
              '00:00:01.2147483648S5', '00:00:01.2147483647S2147483647', '1:2:3.5', '00:00:00.000000000000000000001',
              '99:59:59.999999999', '00:00:00.1234567899', '00:60:00.00000', '00:00:60.00000']:
        add('hand-picked', 'timeparse ' + hexs(s))
    return cases, hist


def describe(case):
    t = case.split()
    if t[0] == 'timeparse':
        return 'parseTimecode(%r)' % (unhex(t[1]) if len(t) > 1 else '')
    return 'formatTimecode(%s)' % ' '.join(t[1:])


class Spec:
    gen_key = None
    what = 'extracted parse_time/format_time vs libadm parseTimecode/formatTimecode'
    rule = ('cases: every five-digit prefix of the sub-second part crossed with trimming-boundary suffixes, every '
            'second of [0,100h) with sampled sub-second values, digit boundaries, random and boundary fractions with '
            'denominators up to 2^31-1 (format and parse of an independently formatted string), all single edits and '
            'sampled double edits of valid timecodes; non-trivial = distinct cases on which libadm returns a value')
    assumptions = ['times are non-negative (negative durations are outside the model and the property)',
                   "the recogniser's '.' (any character but CR/LF) and digit classes are validated by the edit-distance cases; "
                   'libstdc++ std::regex itself is not modelled',
                   'int64 wrap-around of seconds*denominator cannot occur below 100 h with 31-bit denominators']
    gen_cases = staticmethod(gen_cases)
    expected = staticmethod(expected)
    describe = staticmethod(describe)

    @staticmethod
    def agrees(case, got, want):
        return got == want

    @staticmethod
    def classify(case):
        t = case.split()
        return t[0] + (' ' + t[1] if t[0] == 'timeformat' else '')

    @staticmethod
    def second_pass(case, impl_line):
        t = case.split()
        if t[0] == 'timeformat' and impl_line.startswith('ok '):
            if t[1] == 'ns' and 0 <= int(t[2]) < NS_LIMIT:
                return ('timeparse ' + impl_line[3:], 'ok ns ' + t[2])
            if t[1] == 'frac' and 1 <= int(t[3]) < 2 ** 31 and 0 <= int(t[2]) < 360000 * int(t[3]):
                return ('timeparse ' + impl_line[3:], 'ok frac %s %s' % (t[2], t[3]))
        return None


def run(ctx):
    import codeccheck
    return codeccheck.run(ctx, Spec)


def replay(path):
    import codeccheck
    return codeccheck.replay(path, Spec, 'C15')
