"""C11 - see tools/heapspecs.py (C11) and tools/heapcheck.py; theorems in coq/Props/Properties_C11.v."""
import heapcheck
import heapspecs


def run(ctx):
    return heapcheck.run(ctx, heapspecs.SPECS['C11'])


def replay(path):
    return heapcheck.replay(path, heapspecs.SPECS['C11'], 'C11')
