"""C19 - SADM frames: tools/xmlspecs.py (C19), harness/cpp/xml_ops.hpp (do_frame), coq/Props/Properties_C19.v."""
import heapcheck
import xmlspecs


def run(ctx):
    return heapcheck.run(ctx, xmlspecs.SPECS['C19'])


def replay(path):
    return heapcheck.replay(path, xmlspecs.SPECS['C19'], 'C19')
