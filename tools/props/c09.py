"""C09 - see tools/heapspecs.py (C09) and tools/heapcheck.py; theorems in coq/Props/Properties_C09.v."""
import heapcheck
import heapspecs


def run(ctx):
    return heapcheck.run(ctx, heapspecs.SPECS['C09'])


def replay(path):
    return heapcheck.replay(path, heapspecs.SPECS['C09'], 'C09')
