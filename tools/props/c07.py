"""C07 - parsing arbitrary bytes ends in a document or an exception, memory-safely: every entry point and parser option
on generated, mutated and hand-picked inputs, in an AddressSanitizer + UndefinedBehaviorSanitizer build of libadm and of
the driver, with a time limit; returned documents are checked against the invariants of C03/C05/C06/C12.
Theorems (termination of the node searches on regenerated navigation inventory): coq/Props/Properties_C07.v."""
import json
import os
import subprocess
import threading

import fuzzgen
import heapgen
import vlib

CASE_TIMEOUT = 15          # seconds for one input (all entry points) when run alone
SLOW_MS = 20000


def run_shard(exe, cases, timeout):
    """Runs the cases in one driver process; on a crash or time-out the culprit is the first case without output.
    Returns one result string per case."""
    res = []
    todo = list(cases)
    env = dict(os.environ, ASAN_OPTIONS='detect_leaks=0:abort_on_error=0:allocator_may_return_null=1', UBSAN_OPTIONS='print_stacktrace=1')
    while todo:
        text = '\n'.join('fuzz %s\nend' % c.hex() for c in todo) + '\n'
        try:
            p = subprocess.run([exe, 'heap'], input=text, stdout=subprocess.PIPE, stderr=subprocess.PIPE,
                               universal_newlines=True, timeout=timeout, errors='replace', env=env)
            outs = [o[0] if o else '<empty>' for o in heapgen.split_results(p.stdout)]
            failed = p.returncode != 0
            err = p.stderr[-1500:]
        except subprocess.TimeoutExpired as e:
            so = e.stdout.decode('utf-8', 'replace') if isinstance(e.stdout, bytes) else (e.stdout or '')
            outs = [o[0] if o else '<empty>' for o in heapgen.split_results(so)]
            failed = True
            err = 'time-out after %d s' % timeout
        outs = outs[:len(todo)]
        res += outs
        if len(outs) == len(todo) and not failed:
            break
        if len(outs) == len(todo):          # failure after the last case (exit handlers)
            res[-1] = '<crash> ' + err.replace('\n', ' | ')
            break
        k = len(outs)                       # todo[k] is the culprit: run it alone to tell a crash from a hang
        try:
            q = subprocess.run([exe, 'heap'], input='fuzz %s\nend\n' % todo[k].hex(), stdout=subprocess.PIPE, stderr=subprocess.PIPE,
                               universal_newlines=True, timeout=CASE_TIMEOUT, errors='replace', env=env)
            if q.returncode != 0:
                res.append('<crash> ' + q.stderr[-1500:].replace('\n', ' | '))
            else:
                o = heapgen.split_results(q.stdout)
                res.append(o[0][0] if o and o[0] else '<empty>')      # only fails in company: keep its own result
        except subprocess.TimeoutExpired:
            res.append('<hang> no result within %d s' % CASE_TIMEOUT)
        todo = todo[k + 1:]
    return res


def run_all(exe, cases, shards=16):
    size = max(1, (len(cases) + shards - 1) // shards)
    chunks = [cases[i:i + size] for i in range(0, len(cases), size)]
    results = [None] * len(chunks)

    def work(k):
        results[k] = run_shard(exe, chunks[k], timeout=40 + 2 * len(chunks[k]))
    ths = [threading.Thread(target=work, args=(k,)) for k in range(len(chunks))]
    for t in ths:
        t.start()
    for t in ths:
        t.join()
    return [r for c in results for r in c]


def judge(r):
    """-> (tag, message) or None"""
    if r.startswith('<crash>'):
        kind = 'asan' if 'AddressSanitizer' in r else 'ubsan' if 'runtime error' in r else 'abort'
        return ('crash:' + kind, 'the process died: ' + r[8:400])
    if r.startswith('<hang>'):
        return ('hang', r)
    if not r.startswith('ok '):
        return ('driver-error', r[:200])
    t = r.split()
    letters = t[1]
    if 'X' in letters:
        return ('non-std-exception', 'an exception not derived from std::exception escaped: ' + r[:300])
    if 'I' in letters:
        return ('invariant', 'a returned document breaks an invariant: ' + r[:300])
    ms = int(t[2][3:]) if len(t) > 2 and t[2].startswith('ms=') else 0
    if ms > SLOW_MS:
        return ('slow', 'took %d ms' % ms)
    return None


def run(ctx):
    with vlib.Lock():
        exe = vlib.build_admdrv('asan')
        tr_ok, tr_out, tr_stats = vlib.translate()
        proof = vlib.coq_check_props('C07')
    n = 500 if ctx.quick() else 40000
    inputs = fuzzgen.gen_inputs(ctx.rng, n)
    corpus_dir = os.path.join(vlib.ROOT, 'corpus', 'C07')
    corpus = []
    if os.path.isdir(corpus_dir):
        for fn in sorted(os.listdir(corpus_dir)):
            corpus.append(('corpus', open(os.path.join(corpus_dir, fn), 'rb').read()))
    inputs = corpus + inputs
    results = run_all(exe, [x for _k, x in inputs])
    hist, outcomes = {}, {}
    findings = {}
    returned = 0
    for (kind, x), r in zip(inputs, results):
        hist[kind] = hist.get(kind, 0) + 1
        if r.startswith('ok '):
            letters = r.split()[1]
            for ch in letters:
                outcomes[ch] = outcomes.get(ch, 0) + 1
            if 'R' in letters:
                returned += 1
        j = judge(r)
        if j:
            findings.setdefault(j[0], (x, j[1], r))
    found = False
    for tag, (x, msg, r) in sorted(findings.items()):
        found = True
        # shrink: delete chunks while the same kind of failure persists
        small = x
        step = max(1, len(small) // 2)
        tries = 0
        limit = 20 if tag == 'hang' else 60
        while step >= 1 and tries < limit:
            i = 0
            changed = False
            while i < len(small) and tries < limit:
                cand = small[:i] + small[i + step:]
                tries += 1
                jr = judge(run_shard(exe, [cand], CASE_TIMEOUT + 10)[0]) if cand != small else None
                if jr and jr[0] == tag:
                    small = cand
                    changed = True
                else:
                    i += step
            if not changed:
                step //= 2
        ctx.violation(msg, dict(kind='fuzz', tag=tag, input_hex=small.hex(), input_text=small.decode('utf-8', 'replace')[:4000],
                                original_hex=x.hex() if len(x) < 20000 else None, result=r[:3000]), tag=tag)
    if not tr_ok:
        ctx.violation('translator failed', dict(kind='translator', output=tr_out[-2000:]), found_input=False)
    vlib.proof_violations(ctx, proof, found)
    ctx.coverage.update(evaluations=len(inputs), distinct_nontrivial=returned, programs=len(inputs),
                        rule='valid generated files and SADM frames, structure-aware garbage trees, nesting up to 256, '
                             'byte-level mutations (flip, delete, duplicate, truncate, token and value insertion), random bytes, '
                             'inputs up to 64 KiB; for each input: parseXml with the four option sets, parseFrameHeader, '
                             'parseXml with the parsed header and with a total and a local header x 3 option sets; '
                             'non-trivial = inputs for which some call returned a document',
                        input_distribution=hist, outcome_letters=outcomes, samples=[inputs[len(corpus)][1][:200].decode('latin1')],
                        exhaustive=False, translator=tr_stats.get('NavGen.v', {}),
                        explanation='memory safety and undefined behaviour are observed, not proved: ASan+UBSan build, '
                                    '-fno-sanitize-recover; termination of the node searches is proved on the model')
    ctx.assumptions += ['sanitizers detect only the errors that the explored inputs trigger',
                        'stack exhaustion by nesting deeper than 256 levels is outside the property',
                        'time limit: %d s per input when run alone, %d ms reported by the driver' % (CASE_TIMEOUT, SLOW_MS)]
    return ctx.finish(proof)


def replay(path):
    r = json.load(open(path))
    if not r.get('input_hex') and r.get('input_hex') != '':
        print('replay names a theorem, not an input: %s' % r.get('kind'))
        return 1
    with vlib.Lock():
        exe = vlib.build_admdrv('asan')
    res = run_shard(exe, [bytes.fromhex(r['input_hex'])], CASE_TIMEOUT + 10)[0]
    print(res[:2000])
    j = judge(res)
    if j:
        print('VIOLATION property=C07 replay=%s' % path)
    return 1 if j else 0
