"""C07 - parsing arbitrary bytes ends in a document or an exception, memory-safely: every entry point and parser option
on generated, mutated and hand-picked inputs, in an AddressSanitizer + UndefinedBehaviorSanitizer build of libadm and of
the driver, with a time limit; returned documents are checked against the invariants of C03/C05/C06/C12.
Theorems (termination of the node searches on regenerated navigation inventory): coq/Props/Properties_C07.v."""
import json
import os
import subprocess
import threading

import fuzzgen
import heapgen
import vlib

MAX_DEATHS = 4            # per shard
CASE_TIMEOUT = 45          # seconds for one input (all entry points) when run alone
SLOW_MS = 40000


def run_shard(exe, cases, timeout):
    """Runs the cases in one driver process. Every fuzz op arms an alarm in the driver (CASE_TIMEOUT seconds): a call
    that does not come back, or a crash, ends the process; the culprit is the first case without a result and the
    remaining cases are run in a new process.  After MAX_DEATHS deaths the rest of the shard is skipped."""
    res = []
    todo = list(cases)
    deaths = 0
    env = dict(os.environ, ASAN_OPTIONS='detect_leaks=0:abort_on_error=0:allocator_may_return_null=1:handle_segv=1',
               UBSAN_OPTIONS='print_stacktrace=1')
    while todo:
        if deaths >= MAX_DEATHS:
            res += ['<skipped>'] * len(todo)
            break
        text = '\n'.join('fuzz %s %d\nend' % (c.hex() or '-', CASE_TIMEOUT) for c in todo) + '\n'
        try:
            p = subprocess.run([exe, 'heap'], input=text, stdout=subprocess.PIPE, stderr=subprocess.PIPE,
                               universal_newlines=True, timeout=timeout, errors='replace', env=env)
            so, failed, err = p.stdout, p.returncode != 0, p.stderr[-1500:]
        except subprocess.TimeoutExpired as e:
            so = e.stdout.decode('utf-8', 'replace') if isinstance(e.stdout, bytes) else (e.stdout or '')
            failed, err = True, 'shard time-out after %d s' % timeout
        hang = '<hang-alarm>' in so
        outs = [o[0] if o else '<empty>' for o in heapgen.split_results(so.replace('<hang-alarm>\n', ''))]
        outs = [o for o in outs if o != '<empty>'][:len(todo)]
        res += outs
        if len(outs) == len(todo):
            if failed:
                res[-1] = '<crash> after the last case: ' + err.replace('\n', ' | ')
            break
        deaths += 1
        res.append(('<hang> no result within %d s' % CASE_TIMEOUT) if hang or 'time-out' in err
                   else '<crash> ' + err.replace('\n', ' | '))
        todo = todo[len(outs) + 1:]
    return res


def run_all(exe, cases, shards=16):
    size = max(1, (len(cases) + shards - 1) // shards)
    chunks = [cases[i:i + size] for i in range(0, len(cases), size)]
    results = [None] * len(chunks)

    def work(k):
        results[k] = run_shard(exe, chunks[k], timeout=60 + 2 * len(chunks[k]) + CASE_TIMEOUT)
    ths = [threading.Thread(target=work, args=(k,)) for k in range(len(chunks))]
    for t in ths:
        t.start()
    for t in ths:
        t.join()
    return [r for c in results for r in c]


def judge(r):
    """-> (tag, message) or None"""
    if r.startswith('<crash>'):
        kind = 'asan' if 'AddressSanitizer' in r else 'ubsan' if 'runtime error' in r else 'abort'
        return ('crash:' + kind, 'the process died: ' + r[8:400])
    if r.startswith('<hang>'):
        return ('hang', r)
    if r.startswith('<skipped>'):
        return None
    if not r.startswith('ok '):
        return ('driver-error', r[:200])
    t = r.split()
    letters = t[1]
    if 'X' in letters:
        return ('non-std-exception', 'an exception not derived from std::exception escaped: ' + r[:300])
    if 'I' in letters:
        return ('invariant', 'a returned document breaks an invariant: ' + r[:300])
    ms = int(t[2][3:]) if len(t) > 2 and t[2].startswith('ms=') else 0
    if ms > SLOW_MS:
        return ('slow', 'took %d ms' % ms)
    return None


def run(ctx):
    with vlib.Lock():
        exe = vlib.build_admdrv('asan')
        tr_ok, tr_out, tr_stats = vlib.translate()
        proof = vlib.coq_check_props('C07')
    n = 500 if ctx.quick() else 40000
    inputs = fuzzgen.gen_inputs(ctx.rng, n)
    corpus_dir = os.path.join(vlib.ROOT, 'corpus', 'C07')
    corpus = []
    if os.path.isdir(corpus_dir):
        for fn in sorted(os.listdir(corpus_dir)):
            corpus.append(('corpus', open(os.path.join(corpus_dir, fn), 'rb').read()))
    inputs = corpus + inputs
    results = run_all(exe, [x for _k, x in inputs])
    hist, outcomes = {}, {}
    max_ms = 0
    findings = {}
    returned = 0
    for (kind, x), r in zip(inputs, results):
        hist[kind] = hist.get(kind, 0) + 1
        if r.startswith('ok '):
            letters = r.split()[1]
            for ch in letters:
                outcomes[ch] = outcomes.get(ch, 0) + 1
            if 'R' in letters:
                returned += 1
            t_ = r.split()
            if len(t_) > 2 and t_[2].startswith('ms='):
                max_ms = max(max_ms, int(t_[2][3:]))
        j = judge(r)
        if j:
            findings.setdefault(j[0], (x, j[1], r))
    found = False
    for tag, (x, msg, r) in sorted(findings.items()):
        found = True
        # shrink: delete chunks while the same kind of failure persists
        small = x
        step = max(1, len(small) // 2)
        tries = 0
        limit = 6 if tag == 'hang' else 60
        while step >= 1 and tries < limit:
            i = 0
            changed = False
            while i < len(small) and tries < limit:
                cand = small[:i] + small[i + step:]
                tries += 1
                jr = judge(run_shard(exe, [cand], CASE_TIMEOUT + 10)[0]) if cand != small else None
                if jr and jr[0] == tag:
                    small = cand
                    changed = True
                else:
                    i += step
            if not changed:
                step //= 2
        ctx.violation(msg, dict(kind='fuzz', tag=tag, input_hex=small.hex(), input_text=small.decode('utf-8', 'replace')[:4000],
                                original_hex=x.hex() if len(x) < 20000 else None, result=r[:3000]), tag=tag)
    if not tr_ok:
        ctx.violation('translator failed', dict(kind='translator', output=tr_out[-2000:]), found_input=False)
    vlib.proof_violations(ctx, proof, found)
    ctx.coverage.update(evaluations=len(inputs), distinct_nontrivial=returned, programs=len(inputs),
                        rule='valid generated files and SADM frames, structure-aware garbage trees, nesting up to 256, '
                             'byte-level mutations (flip, delete, duplicate, truncate, token and value insertion), random bytes, '
                             'inputs up to 64 KiB; for each input: parseXml with the four option sets, parseFrameHeader, '
                             'parseXml with the parsed header and with a total and a local header x 3 option sets; '
                             'non-trivial = inputs for which some call returned a document',
                        input_distribution=hist, outcome_letters=outcomes, slowest_input_ms=max_ms, samples=[inputs[len(corpus)][1][:200].decode('latin1')],
                        exhaustive=False, translator=tr_stats.get('NavGen.v', {}),
                        explanation='memory safety and undefined behaviour are observed, not proved: ASan+UBSan build, '
                                    '-fno-sanitize-recover; termination of the node searches is proved on the model')
    ctx.assumptions += ['sanitizers detect only the errors that the explored inputs trigger',
                        'stack exhaustion by nesting deeper than 256 levels is outside the property',
                        'time limit: %d s per input when run alone, %d ms reported by the driver' % (CASE_TIMEOUT, SLOW_MS)]
    return ctx.finish(proof)


def replay(path):
    r = json.load(open(path))
    if not r.get('input_hex') and r.get('input_hex') != '':
        print('replay names a theorem, not an input: %s' % r.get('kind'))
        return 1
    with vlib.Lock():
        exe = vlib.build_admdrv('asan')
    res = run_shard(exe, [bytes.fromhex(r['input_hex'])], CASE_TIMEOUT + 10)[0]
    print(res[:2000])
    j = judge(res)
    if j:
        print('VIOLATION property=C07 replay=%s' % path)
    return 1 if j else 0
