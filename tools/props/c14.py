"""C14 - see tools/heapspecs.py (C14) and tools/heapcheck.py; theorems in coq/Props/Properties_C14.v."""
import heapcheck
import heapspecs


def run(ctx):
    return heapcheck.run(ctx, heapspecs.SPECS['C14'])


def replay(path):
    return heapcheck.replay(path, heapspecs.SPECS['C14'], 'C14')
