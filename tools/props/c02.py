"""C02 - re-saving a parsed file loses nothing the parser understood: tools/xmlspecs.py (C02), tools/admxmlgen.py,
coq/Props/Properties_C02.v."""
import heapcheck
import xmlspecs


def run(ctx):
    return heapcheck.run(ctx, xmlspecs.SPECS['C02'])


def replay(path):
    return heapcheck.replay(path, xmlspecs.SPECS['C02'], 'C02')
