"""C03 - see tools/heapspecs.py (C03) and tools/heapcheck.py; theorems in coq/Props/Properties_C03.v."""
import heapcheck
import heapspecs


def run(ctx):
    return heapcheck.run(ctx, heapspecs.SPECS['C03'])


def replay(path):
    return heapcheck.replay(path, heapspecs.SPECS['C03'], 'C03')
