"""C17 - every parameter obeys the documented get/set/has/unset/isDefault contract.

Proof: coq/Props/Properties_C17.v (contract of accessor rows accepted by the checker; the rows are
regenerated from the hand-written accessors and HasParameters<> lists).  Explored: a generated C++
harness probes every (class, parameter) pair on real objects (set several values, unset, set again),
and the contract clauses are evaluated on what libadm reports."""
import json
import os
import subprocess
import sys

import vlib

# parameters the documentation couples: setting the key may change the listed ones
COUPLED = {
    'AudioBlockFormatObjects': [{'Position', 'SphericalPosition', 'CartesianPosition', 'Cartesian'}],
    'AudioBlockFormatDirectSpeakers': [{'SpeakerPosition', 'SphericalSpeakerPosition', 'CartesianSpeakerPosition'}],
    'AudioContent': [{'DialogueId', 'ContentKind', 'NonDialogueContentKind', 'DialogueContentKind', 'MixedContentKind'}],
    'AudioObject': [{'PositionOffset', 'SphericalPositionOffset', 'CartesianPositionOffset'}],
    'ScreenEdgeLock': [{'ScreenEdge', 'HorizontalEdge', 'VerticalEdge'}],
}


def coupled(cls, p, q):
    return any(p in g and q in g for g in COUPLED.get(cls, []))


def split_top(s, sep):
    """split at separators that are not inside {...} or [...] (nested structured values)"""
    out, depth, cur = [], 0, ''
    for ch in s:
        if ch in '{[':
            depth += 1
        elif ch in '}]':
            depth -= 1
        if ch == sep and depth == 0:
            out.append(cur)
            cur = ''
        else:
            cur += ch
    out.append(cur)
    return out


def parse_line(l):
    t = l.split(' ', 6)
    cls, par, caps, kind, nvals = t[1], t[2], t[3][5:], t[4][5:], int(t[5][6:])
    body = t[6][len('steps=['):-1]
    steps = []
    exc = None
    for st in body.split(';'):
        if not st:
            continue
        if st.startswith('EXCEPTION'):
            exc = st
            continue
        head, _, rest = st.partition('@@')
        if head.startswith('setfail'):
            steps.append(dict(op='setfail', arg=head.partition('=')[2]))
            continue
        own, _, others = rest.partition('|')
        h, d, g = own.split(',', 2)
        op, _, arg = head.partition('=')
        oth = dict(x.split('=', 1) for x in split_top(others, '/') if x)
        steps.append(dict(op=op, arg=arg, has=h, isdef=d, get=g, others=oth))
    return cls, par, caps + ':' + kind, nvals, steps, exc


def check_line(l):
    """-> list of (tag, message)"""
    cls, par, caps, nvals, steps, exc = parse_line(l)
    caps, _, kind = caps.partition(':')
    out = []
    name = '%s::%s' % (cls, par)
    if exc:
        out.append(('exception:' + name, '%s: probe raised %s' % (name, exc)))
    real = [s for s in steps if s['op'] != 'setfail']
    if not real:
        return out
    fresh = real[0]
    for i, s in enumerate(real):
        hist = ' -> '.join(x['op'] + ('(' + x['arg'] + ')' if x.get('arg') else '') for x in real[1:i + 1]) or 'fresh object'
        if s['has'] == '1' and s['get'] == '!':
            out.append(('has-but-get-throws:' + name, '%s after %s: has is true but get throws' % (name, hist)))
        if s['op'] == 'set':
            if s['has'] == '0':
                out.append(('set-has-false:' + name, '%s after %s: has is false' % (name, hist)))
            if 'g' in caps and s['get'] not in ('-',) and s['get'] != s['arg'] and s['arg'] != '?':
                out.append(('set-get-differs:' + name, '%s after %s: get returns %s' % (name, hist, s['get'])))
            if s['isdef'] == '1':
                out.append(('set-isdefault-true:' + name, '%s after %s: isDefault is true' % (name, hist)))
        if s['op'] == 'unset':
            if kind in ('O', 'V') or (kind == '?' and fresh['has'] == '0'):
                if s['has'] != '0':
                    out.append(('unset-optional-has:' + name, '%s after %s: optional parameter still reports has' % (name, hist)))
            elif kind == 'D':
                if s['has'] != '1' or s['isdef'] == '0' or (s['get'] != fresh['get']):
                    out.append(('unset-default:' + name, '%s after %s: has=%s isDefault=%s get=%s, the default is %s'
                                % (name, hist, s['has'], s['isdef'], s['get'], fresh['get'])))
        if i > 0:
            prev = real[i - 1]
            for q, v in s['others'].items():
                if prev['others'].get(q) != v and not coupled(cls, par, q):
                    out.append(('changes-other:%s:%s' % (name, q), '%s: %s changed %s::%s from %s to %s'
                                % (name, hist, cls, q, prev['others'].get(q), v)))
    return out


def run(ctx):
    import accgen
    with vlib.Lock():
        vlib.build_libadm('plain')
        gen_stats = accgen.generate(vlib.REPO, os.path.join(vlib.ROOT, 'harness', 'cpp', 'acc_probes.inc'))
        try:
            admdrv = vlib.build_admdrv('plain')
            build_err = None
        except vlib.CheckError as e:
            admdrv = None
            build_err = str(e)
        tr_ok, tr_out, tr_stats = vlib.translate()
        proof = vlib.coq_check_props('C17')
    found = False
    lines = []
    if admdrv:
        p = subprocess.run([admdrv, 'acc'], stdout=subprocess.PIPE, stderr=subprocess.PIPE, universal_newlines=True, timeout=900)
        lines = [l for l in p.stdout.split('\n') if l.startswith('acc ')]
        cross_lines = [l for l in p.stdout.split('\n') if l.startswith('cross ')]
        if p.returncode != 0:
            ctx.violation('the accessor probes crashed (rc %d)' % p.returncode, dict(kind='probe-crash', stderr=p.stderr[-2000:]),
                          found_input=False)
    else:
        ctx.violation('the generated accessor harness does not compile against the current tree',
                      dict(kind='harness-build', error=build_err[-3000:]), found_input=False)
    findings = {}
    nsteps = 0
    nontrivial = 0
    for l in (cross_lines if build_err is None else []):
        t = l.split(' ', 4)
        name = '%s::%s-then-%s' % (t[1], t[2], t[3])
        rest = t[4] if len(t) > 4 else ''
        if rest.startswith('novalues'):
            continue
        nsteps += 2
        if rest.startswith('EXCEPTION'):
            findings.setdefault('cross-exception:' + name, ('%s: %s' % (name, rest[:200]), l))
            continue
        f = dict(x.split('=', 1) for x in rest.split(' ') if '=' in x)
        if f.get('hasA') != '0':
            findings.setdefault('alternative-not-cleared:' + name,
                                ('%s: after set(%s) then set(%s) the object still has %s' % (t[1], t[2], t[3], t[2]), l))
        if f.get('hasB') != '1' or f.get('getB') != f.get('expected'):
            findings.setdefault('alternative-not-set:' + name,
                                ('%s: after set(%s) then set(%s), %s reads %s (has=%s), expected %s'
                                 % (t[1], t[2], t[3], t[3], f.get('getB'), f.get('hasB'), f.get('expected')), l))
    for l in lines:
        cls, par, caps, nvals, steps, exc = parse_line(l)
        nsteps += len(steps)
        if nvals and any(s['op'] == 'set' for s in steps):
            nontrivial += 1
        for tag, msg in check_line(l):
            findings.setdefault(tag, (msg, l))
    for tag, (msg, l) in sorted(findings.items()):
        found = True
        ctx.violation(msg, dict(kind='contract', tag=tag, probe_line=l, replay_note='admdrv acc | grep "%s"' % ' '.join(l.split()[1:3])), tag=tag)
    bad_rows = proof_bad_rows()
    vlib.proof_violations(ctx, proof, found)
    ctx.coverage.update(
        evaluations=nsteps, distinct_nontrivial=nontrivial,
        rule='one probe per (class, parameter) pair found in the sources: fresh object, up to three valid values set in '
             'turn, unset, set again, unset; after every step has/isDefault/get of the parameter and of every other '
             'probed parameter of the object are recorded; non-trivial = pairs for which at least one value could be set',
        samples=lines[:2] if lines else ['<no probe output>'], programs=len(lines), disagreements_checked=len(findings),
        probes=gen_stats, translator={k: v for k, v in tr_stats.get('ParamsGen.v', {}).items() if k not in ('rewritten', 'classes')},
        rows_failing_static_checker=bad_rows, exhaustive=True,
        explanation='exhaustive over the (class, parameter) pairs found; values are sampled (up to three per parameter)')
    ctx.assumptions += ['classes without a factory in tools/accgen.py are not probed: %s' % gen_stats.get('skipped'),
                        'values are the first three samples of the underlying type accepted by the validator']
    return ctx.finish(proof)


def proof_bad_rows():
    """Names of the accessor rows the static checker rejects (decoded from coqc output)."""
    import re
    src = ('From Adm Require Import Params.Accessors gen.ParamsGen.\n'
           'Eval vm_compute in map (fun r => (r_class r, r_param r)) '
           '(filter (fun r => scalar_row r && negb (row_ok r))%bool accessor_rows).\n')
    tmp = os.path.join(vlib.COQ, 'Props', 'tmp_c17_rows.v')
    open(tmp, 'w').write(src)
    try:
        rc, out, _dt = vlib.sh(['coqc', '-Q', '.', 'Adm', tmp], cwd=vlib.COQ, timeout=300)
    finally:
        for ext in ('.v', '.vo', '.vok', '.vos', '.glob'):
            try:
                os.remove(tmp[:-2] + ext)
            except OSError:
                pass
    f = lambda s: ''.join(chr(int(x.replace('%N', ''))) for x in re.split(r'[;\s]+', s.strip()) if x)
    return ['%s::%s' % (f(a), f(b)) for a, b in re.findall(r'\(\[([0-9;%N \n]+)\],\s*\[([0-9;%N \n]+)\]\)', out.replace('%N', ''))]


def replay(path):
    r = json.load(open(path))
    with vlib.Lock():
        admdrv = vlib.build_admdrv('plain')
    p = subprocess.run([admdrv, 'acc'], stdout=subprocess.PIPE, universal_newlines=True)
    want = ' '.join(r.get('probe_line', '').split()[1:3])
    bad = 0
    for l in p.stdout.split('\n'):
        if l.startswith('acc ' + want + ' '):
            print(l)
            for tag, msg in check_line(l):
                print('oracle: [%s] %s' % (tag, msg))
                bad += 1
    if bad:
        print('VIOLATION property=C17 replay=%s' % path)
    return 1 if bad else 0
