"""C12 - see tools/heapspecs.py (C12) and tools/heapcheck.py; theorems in coq/Props/Properties_C12.v."""
import heapcheck
import heapspecs


def run(ctx):
    return heapcheck.run(ctx, heapspecs.SPECS['C12'])


def replay(path):
    return heapcheck.replay(path, heapspecs.SPECS['C12'], 'C12')
