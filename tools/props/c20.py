"""C20 - no hidden shared state: separate documents never interact, also across threads (partial).

Proof: coq/Props/Properties_C20.v (statics inventory regenerated from /repo; interleaving theorem of the
model).  Explored: the same workloads on disjoint worlds sequentially, in the extracted model, and in
2..16 threads of a ThreadSanitizer build of libadm (outputs must be identical, no race report);
sequential aliasing tests of getCommonDefinitions / parseXml / Document::create / deepCopy."""
import binascii
import json
import os
import subprocess

import heapcheck
import heapgen
import vlib


def gen(ctx):
    rng = ctx.rng
    n = 160 if ctx.quick() else 8000
    extra = dict(heapgen.EXTRA)

    def op_tparse(rng, pool, docs):
        s = rng.choice(['00:00:01.50000', '01:02:03.123456789', '00:00:00.1S48000', '23:59:59.99999', 'bogus',
                        '00:10:00.25S1001'])
        return 'tparse ' + binascii.hexlify(s.encode()).decode()

    def op_tformat(rng, pool, docs):
        return 'tformat ' + heapgen.rand_time(rng, 0, 3600 * 10 ** 9)
    extra['tparse'] = (6, op_tparse)
    extra['tformat'] = (4, op_tformat)
    return [heapgen.gen_history(rng, nops=rng.choice([20, 40]), extra_ops=extra, snapshot_every=5) for _ in range(n)]


def run(ctx):
    with vlib.Lock():
        admdrv = vlib.build_admdrv('plain')
        tsandrv = vlib.build_admdrv('tsan')
        tr_ok, tr_out, tr_stats = vlib.translate()
        proof = vlib.coq_check_props('C20')
        try:
            modeldrv = vlib.build_modeldrv()
        except vlib.CheckError as e:
            modeldrv = None
            ctx.notes.append('model does not build: %s' % str(e)[-800:])
    cases = gen(ctx)
    seq = heapcheck.run_cases(admdrv, cases)
    model = heapcheck.run_cases(modeldrv, cases) if modeldrv else None
    found = False
    disagreements = 0
    if model is not None:
        for k in range(len(cases)):
            a, b = seq[k], model[k]
            if 'unsupported' in a:
                j = a.index('unsupported')
                a, b = a[:j], b[:j]
            if a != b:
                disagreements += 1
    text = '\n'.join('\n'.join(c) for c in cases) + '\n'
    env = dict(os.environ, TSAN_OPTIONS='halt_on_error=0 report_signal_unsafe=0 exitcode=66')
    thread_runs = []
    for nthreads in ([2, 8] if ctx.quick() else [2, 4, 8, 16]):
        p = subprocess.run([tsandrv, 'threads', str(nthreads)], input=text, stdout=subprocess.PIPE, stderr=subprocess.PIPE,
                           universal_newlines=True, env=env, timeout=3000, errors='replace')
        out = heapgen.split_results(p.stdout)
        races = p.stderr.count('WARNING: ThreadSanitizer')
        same = out == seq
        thread_runs.append(dict(threads=nthreads, races=races, same_as_sequential=same, rc=p.returncode))
        if races:
            found = True
            first = p.stderr[p.stderr.index('WARNING: ThreadSanitizer'):][:3000]
            ctx.violation('ThreadSanitizer reports %d data race(s) with %d threads working on disjoint documents'
                          % (races, nthreads),
                          dict(kind='data-race', threads=nthreads, report=first, workload=cases[:3],
                               replay_note='re-run: admdrv(tsan) threads %d on the generated workload (seed %d)' % (nthreads, ctx.seed)),
                          tag='data-race')
        elif not same:
            found = True
            k = next((i for i in range(min(len(out), len(seq))) if out[i] != seq[i]), 0)
            ctx.violation('workload %d gives a different result when run in %d threads than when run alone' % (k, nthreads),
                          dict(kind='thread-result-differs', threads=nthreads, script=cases[k],
                               sequential=seq[k][-10:], threaded=(out[k][-10:] if k < len(out) else None)),
                          tag='thread-result-differs')
    p = subprocess.run([admdrv, 'alias'], stdout=subprocess.PIPE, stderr=subprocess.PIPE, universal_newlines=True, timeout=600)
    alias_lines = p.stdout.strip().split('\n')
    for l in alias_lines:
        if l.startswith('alias-FAIL'):
            found = True
            ctx.violation('aliasing test failed: %s' % l[len('alias-FAIL '):],
                          dict(kind='aliasing', test=l, replay_note='admdrv alias'), tag='alias:' + l.split()[1])
    if p.returncode not in (0, 1) or not alias_lines or not alias_lines[0].startswith('alias-'):
        found = True
        ctx.violation('the aliasing tests crashed (rc %d)' % p.returncode, dict(kind='aliasing', stderr=p.stderr[-2000:]), tag='alias-crash')
    if disagreements and not found:
        ctx.violation('correspondence: model and libadm differ on %d workloads' % disagreements,
                      dict(kind='correspondence', correspondence='extracted xexec vs libadm, sequential'), found_input=False)
    mut = tr_stats.get('StaticsGen.v', {}).get('mutable', [])
    if mut and not found:
        ctx.violation('mutable object with static storage duration: %s' % mut[:3],
                      dict(kind='mutable-static', objects=mut, theorem='C20_no_mutable_statics'), found_input=False)
    if not tr_ok:
        ctx.violation('translator failed', dict(kind='translator', output=tr_out[-2000:]), found_input=False)
    vlib.proof_violations(ctx, proof, found or bool(mut))
    ctx.coverage.update(
        evaluations=len(cases) * (1 + len(thread_runs)), distinct_nontrivial=len({'\n'.join(c) for c in cases}),
        rule='generated workloads (heap histories with copies, reassignIds, durations, route tracing, timecode parsing) '
             'run alone, in the extracted model, and in 2..16 threads under ThreadSanitizer; non-trivial = distinct workloads',
        samples=[cases[0][:30]], thread_runs=thread_runs, aliasing_tests=alias_lines,
        programs=len(cases), disagreements_checked=disagreements,
        translator={k: v for k, v in tr_stats.get('StaticsGen.v', {}).items() if k != 'rewritten'},
        exhaustive=False,
        explanation='data-race freedom is explored, not proved; the theorems cover the static inventory and the model')
    ctx.assumptions += ['ThreadSanitizer sees only the interleavings that occur in the runs made',
                        'XML parse/write workloads in threads are added with the XML model']
    return ctx.finish(proof)


def replay(path):
    r = json.load(open(path))
    print(json.dumps(r, indent=1)[:3000])
    print('re-run ./check C20 --tier quick with VERIF_SEED=%s to reproduce' % r.get('seed', '<seed in file name>'))
    return 1
