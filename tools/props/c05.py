"""C05 - see tools/heapspecs.py (C05) and tools/heapcheck.py; theorems in coq/Props/Properties_C05.v."""
import heapcheck
import heapspecs


def run(ctx):
    return heapcheck.run(ctx, heapspecs.SPECS['C05'])


def replay(path):
    return heapcheck.replay(path, heapspecs.SPECS['C05'], 'C05')
