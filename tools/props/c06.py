"""C06 - see tools/heapspecs.py (C06) and tools/heapcheck.py; theorems in coq/Props/Properties_C06.v."""
import heapcheck
import heapspecs


def run(ctx):
    return heapcheck.run(ctx, heapspecs.SPECS['C06'])


def replay(path):
    return heapcheck.replay(path, heapspecs.SPECS['C06'], 'C06')
