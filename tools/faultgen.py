"""faultgen.py - C08: the faults the parser must reject, injected into a valid generated file at every site where
they apply.  enumerate_faults(tree) -> [(fault name, site description, mutated tree)]."""
import copy

from admxmlgen import Node

KIND_OF = {'audioProgramme': ('audioProgrammeID', 'APR_3ffe'), 'audioContent': ('audioContentID', 'ACO_3ffe'),
           'audioObject': ('audioObjectID', 'AO_3ffe'), 'audioPackFormat': ('audioPackFormatID', None),
           'audioChannelFormat': ('audioChannelFormatID', None), 'audioStreamFormat': ('audioStreamFormatID', None),
           'audioTrackFormat': ('audioTrackFormatID', None), 'audioTrackUID': ('UID', 'ATU_3ffffffe')}
# reference element name -> an ID of the right syntax that names no element (outside the common definitions)
DANGLING = {'audioContentIDRef': 'ACO_3ffe', 'audioObjectIDRef': 'AO_3ffe', 'audioComplementaryObjectIDRef': 'AO_3ffd',
            'audioPackFormatIDRef': 'AP_00033ffe', 'audioChannelFormatIDRef': 'AC_00033ffe', 'audioTrackUIDRef': 'ATU_3ffffffe',
            'audioStreamFormatIDRef': 'AS_00033ffe', 'audioTrackFormatIDRef': 'AT_00033ffe_01'}
# the fifteen reference kinds: (parent element, reference element)
REF_KINDS = [('audioProgramme', 'audioContentIDRef'), ('audioContent', 'audioObjectIDRef'), ('audioObject', 'audioObjectIDRef'),
             ('audioObject', 'audioComplementaryObjectIDRef'), ('audioObject', 'audioPackFormatIDRef'),
             ('audioObject', 'audioTrackUIDRef'), ('audioTrackUID', 'audioTrackFormatIDRef'),
             ('audioTrackUID', 'audioChannelFormatIDRef'), ('audioTrackUID', 'audioPackFormatIDRef'),
             ('audioPackFormat', 'audioChannelFormatIDRef'), ('audioPackFormat', 'audioPackFormatIDRef'),
             ('audioTrackFormat', 'audioStreamFormatIDRef'), ('audioStreamFormat', 'audioChannelFormatIDRef'),
             ('audioStreamFormat', 'audioPackFormatIDRef'), ('audioStreamFormat', 'audioTrackFormatIDRef')]
MANDATORY = {'audioProgramme': ['audioProgrammeID', 'audioProgrammeName'], 'audioContent': ['audioContentID', 'audioContentName'],
             'audioObject': ['audioObjectID', 'audioObjectName'], 'audioPackFormat': ['audioPackFormatID', 'audioPackFormatName'],
             'audioChannelFormat': ['audioChannelFormatID', 'audioChannelFormatName'],
             'audioStreamFormat': ['audioStreamFormatID', 'audioStreamFormatName'],
             'audioTrackFormat': ['audioTrackFormatID', 'audioTrackFormatName'], 'audioTrackUID': ['UID'],
             'frequency': ['typeDefinition'], 'gainInteractionRange': ['bound'], 'positionInteractionRange': ['bound', 'coordinate'],
             'positionOffset': ['coordinate']}
# (element, attribute or None for the text, bad value)
# (element, attribute or None for the text, bad value, libadm parameter type): used only when that parameter
# type has a validator in libadm's headers (validated_params) - "a validated value is out of range"
OUT_OF_RANGE = [('audioObject', 'importance', '11', 'Importance'), ('audioObject', 'dialogue', '3', 'DialogueId'),
                ('audioPackFormat', 'importance', '11', 'Importance'),
                ('importance', None, '11', 'Importance'), ('diffuse', None, '1.5', 'Diffuse'), ('width', None, '361', 'Width'),
                ('height', None, '-1', 'Height'), ('depth', None, '1.5', 'Depth'), ('objectDivergence', None, '1.5', 'Divergence'),
                ('objectDivergence', 'azimuthRange', '181', 'AzimuthRange'), ('objectDivergence', 'positionRange', '1.5', 'PositionRange'),
                ('channelLock', 'maxDistance', '2.5', 'MaxDistance'), ('audioProgramme', 'maxDuckingDepth', '1', 'MaxDuckingDepth'),
                ('headphoneVirtualise', 'DRR', '131', 'DirectToReverberantRatio'),
                ('normalization', None, 'XYZ', 'Normalization'), ('audioPackFormat', 'normalization', 'XYZ', 'Normalization'),
                ('dialogue', 'nonDialogueContentKind', '3', 'NonDialogueContentKind'),
                ('dialogue', 'dialogueContentKind', '7', 'DialogueContentKind'), ('dialogue', 'mixedContentKind', '4', 'MixedContentKind'),
                ('audioTrackUID', 'UID', 'ATU_0000000g', None),
                ('audioObject', 'start', '00:00:60', None), ('audioBlockFormat', 'rtime', '12:34', None)]


def validated_params(repo):
    """Parameter types declared as NamedType<T, Tag, SomeValidator<...>> in libadm's headers."""
    import os
    import re
    out = set()
    for root, _d, files in os.walk(os.path.join(repo, 'include', 'adm')):
        for fn in files:
            if fn.endswith('.hpp'):
                src = open(os.path.join(root, fn), errors='replace').read()
                for m in re.finditer(r'using\s+(\w+)\s*=\s*(?:detail::)?NamedType<([^;]*)>;', src):
                    args = m.group(2)
                    if 'Validator' in args:
                        out.add(m.group(1))
    return out


POSITION_RANGE = {'azimuth': ('181', 'Azimuth'), 'elevation': ('-91', 'Elevation'), 'X': ('1.5', 'X'), 'Y': ('-1.5', 'Y'), 'Z': ('1.5', 'Z')}


def elements(tree, name):
    return [k for k in tree.kids if k.name == name]


def get_attr(n, k):
    for a, v in n.attrs:
        if a == k:
            return v
    return None


def set_attr(n, k, v):
    for i, (a, _v) in enumerate(n.attrs):
        if a == k:
            n.attrs[i] = (k, v)
            return
    n.attrs.append((k, v))


def del_attr(n, k):
    n.attrs = [(a, v) for a, v in n.attrs if a != k]


def positions(n):
    """first / middle / last of n sites"""
    if n <= 0:
        return []
    return sorted({0, n // 2, n - 1})


def walk(n, path=()):
    yield n, path
    for i, k in enumerate(n.kids):
        yield from walk(k, path + (i,))


def at(tree, path):
    n = tree
    for i in path:
        n = n.kids[i]
    return n


def enumerate_faults(tree, validated):
    out = []

    def mutate(fault, site, fn):
        t = copy.deepcopy(tree)
        if fn(t) is not False:
            out.append((fault, site, t))

    # 1. two elements of one kind share a (defined, non-zero) ID: an element is repeated at another place
    for name, (idattr, _x) in KIND_OF.items():
        els = elements(tree, name)
        idx = [i for i, k in enumerate(tree.kids) if k.name == name]
        for p in positions(len(els)):
            def dup(t, p=p, idx=idx):
                clone = copy.deepcopy(t.kids[idx[p]])
                clone.kids = [k for k in clone.kids if k.name != 'audioBlockFormat' or True]
                t.kids.insert(idx[-1] + 1 if p != len(idx) - 1 else idx[0], clone)
            mutate('duplicate-id:' + name, 'element %d of %d' % (p + 1, len(els)), dup)
        # ... and the ID of one element given to another one of the same kind
        if len(els) >= 2 and name not in ('audioTrackFormat',):
            def same(t, idx=idx, idattr=idattr):
                set_attr(t.kids[idx[-1]], idattr, get_attr(t.kids[idx[0]], idattr))
                if t.kids[idx[-1]].name == 'audioChannelFormat':       # keep the block IDs consistent with the new ID
                    cid = get_attr(t.kids[idx[-1]], 'audioChannelFormatID')
                    for b in t.kids[idx[-1]].kids:
                        if b.name == 'audioBlockFormat':
                            set_attr(b, 'audioBlockFormatID', 'AB_' + cid[3:] + get_attr(b, 'audioBlockFormatID')[11:])
            if name in ('audioPackFormat', 'audioChannelFormat', 'audioStreamFormat'):
                a, b = get_attr(els[0], idattr), get_attr(els[-1], idattr)
                if a[3:7] != b[3:7]:
                    continue            # different type fields: the ID would contradict the type attributes instead
            mutate('same-id:' + name, 'last element takes the ID of the first', same)
    # 2. an IDRef names no element: each of the fifteen reference kinds, first / middle / last reference of the file
    for parent, ref in REF_KINDS:
        sites = [path for n, path in walk(tree) if n.name == ref and len(path) == 2 and tree.kids[path[0]].name == parent]
        for p in positions(len(sites)):
            def dangle(t, path=sites[p], ref=ref):
                at(t, path).text = DANGLING[ref]
            mutate('dangling:%s/%s' % (parent, ref), 'reference %d of %d' % (p + 1, len(sites)), dangle)
        hosts = [i for i, k in enumerate(tree.kids) if k.name == parent]
        if not sites and hosts:
            def add_dangling(t, i=hosts[0], ref=ref, parent=parent):
                if parent == 'audioTrackUID' and ref in ('audioTrackFormatIDRef', 'audioChannelFormatIDRef'):
                    t.kids[i].kids = [k for k in t.kids[i].kids if k.name not in ('audioTrackFormatIDRef', 'audioChannelFormatIDRef')]
                t.kids[i].kids.append(Node(ref, text=DANGLING[ref]))
            mutate('dangling:%s/%s' % (parent, ref), 'added to the first ' + parent, add_dangling)
    # 3. the type field of an ID contradicts typeLabel / typeDefinition
    for name, idattr in (('audioPackFormat', 'audioPackFormatID'), ('audioChannelFormat', 'audioChannelFormatID')):
        idx = [i for i, k in enumerate(tree.kids) if k.name == name]
        for p in positions(len(idx)):
            td = int(get_attr(tree.kids[idx[p]], idattr)[3:7], 16)
            other = 3 if td != 3 else 1
            mutate('type-mismatch:%s/typeLabel' % name, 'element %d' % (p + 1),
                   lambda t, i=idx[p], other=other: (del_attr(t.kids[i], 'typeDefinition'), set_attr(t.kids[i], 'typeLabel', '%04x' % other)))
            mutate('type-mismatch:%s/typeDefinition' % name, 'element %d' % (p + 1),
                   lambda t, i=idx[p], other=other: (del_attr(t.kids[i], 'typeLabel'),
                                                     set_attr(t.kids[i], 'typeDefinition', {1: 'DirectSpeakers', 3: 'Objects'}[other])))
            # one of the two attributes agrees with the ID, the other one contradicts it
            mutate('type-mismatch:%s/typeDefinition-with-good-typeLabel' % name, 'element %d' % (p + 1),
                   lambda t, i=idx[p], other=other, td=td: (set_attr(t.kids[i], 'typeLabel', '%04x' % td),
                                                            set_attr(t.kids[i], 'typeDefinition', {1: 'DirectSpeakers', 3: 'Objects'}[other])))
            mutate('type-mismatch:%s/typeLabel-with-good-typeDefinition' % name, 'element %d' % (p + 1),
                   lambda t, i=idx[p], other=other, td=td: (set_attr(t.kids[i], 'typeLabel', '%04x' % other),
                                                            set_attr(t.kids[i], 'typeDefinition', {1: 'DirectSpeakers', 2: 'Matrix', 3: 'Objects', 4: 'HOA', 5: 'Binaural'}[td])))
    # 4. formatLabel contradicts formatDefinition / neither is given
    for name in ('audioStreamFormat', 'audioTrackFormat'):
        idx = [i for i, k in enumerate(tree.kids) if k.name == name]
        for p in positions(len(idx)):
            mutate('format-mismatch:' + name, 'element %d' % (p + 1),
                   lambda t, i=idx[p]: (set_attr(t.kids[i], 'formatLabel', '0002'), set_attr(t.kids[i], 'formatDefinition', 'PCM')))
            # the two pairs of values that both exist (0000/Undefined, 0001/PCM) and contradict each other
            mutate('format-mismatch:%s/undefined-label-with-PCM' % name, 'element %d' % (p + 1),
                   lambda t, i=idx[p]: (set_attr(t.kids[i], 'formatLabel', '0000'), set_attr(t.kids[i], 'formatDefinition', 'PCM')))
            mutate('format-mismatch:%s/PCM-label-with-Undefined' % name, 'element %d' % (p + 1),
                   lambda t, i=idx[p]: (set_attr(t.kids[i], 'formatLabel', '0001'), set_attr(t.kids[i], 'formatDefinition', 'Undefined')))
            mutate('format-missing:' + name, 'element %d' % (p + 1),
                   lambda t, i=idx[p]: (del_attr(t.kids[i], 'formatLabel'), del_attr(t.kids[i], 'formatDefinition')))
    # 5. an audioTrackUID references both a track format and a channel format
    uids = [i for i, k in enumerate(tree.kids) if k.name == 'audioTrackUID']
    tracks = [get_attr(k, 'audioTrackFormatID') for k in elements(tree, 'audioTrackFormat')]
    chans = [get_attr(k, 'audioChannelFormatID') for k in elements(tree, 'audioChannelFormat')]
    if tracks and chans:
        for p in positions(len(uids)):
            for order in (0, 1):
                def both(t, i=uids[p], order=order):
                    u = t.kids[i]
                    u.kids = [k for k in u.kids if k.name not in ('audioTrackFormatIDRef', 'audioChannelFormatIDRef')]
                    pair = [Node('audioTrackFormatIDRef', text=tracks[0]), Node('audioChannelFormatIDRef', text=chans[0])]
                    u.kids = (pair if order == 0 else pair[::-1]) + u.kids
                mutate('uid-track-and-channel', 'UID %d, %s first' % (p + 1, ['track', 'channel'][order]), both)
    # 6. block-format IDs (DirectSpeakers, Objects, HOA): wrong channel, wrong type, numbering not continued
    for ci, c in enumerate(tree.kids):
        if c.name != 'audioChannelFormat':
            continue
        cid = get_attr(c, 'audioChannelFormatID')
        td = int(cid[3:7], 16)
        if td not in (1, 3, 4):
            continue
        blocks = [j for j, b in enumerate(c.kids) if b.name == 'audioBlockFormat']
        for p in positions(len(blocks)):
            j = blocks[p]
            bid = get_attr(c.kids[j], 'audioBlockFormatID')
            val = int(cid[7:11], 16)
            mutate('block-id:other-channel', '%s block %d' % (cid, p + 1),
                   lambda t, ci=ci, j=j, bid=bid, val=val: set_attr(t.kids[ci].kids[j], 'audioBlockFormatID', 'AB_%s%04x%s' % (bid[3:7], val + 1, bid[11:])))
            mutate('block-id:other-type', '%s block %d' % (cid, p + 1),
                   lambda t, ci=ci, j=j, bid=bid, td=td: set_attr(t.kids[ci].kids[j], 'audioBlockFormatID', 'AB_%04x%s' % (1 if td != 1 else 3, bid[7:])))
            if p > 0:
                mutate('block-id:numbering-gap', '%s block %d' % (cid, p + 1),
                       lambda t, ci=ci, j=j, bid=bid: set_attr(t.kids[ci].kids[j], 'audioBlockFormatID', bid[:12] + '%08x' % (int(bid[12:], 16) + 1)))
                mutate('block-id:numbering-repeat', '%s block %d' % (cid, p + 1),
                       lambda t, ci=ci, j=j, bid=bid: set_attr(t.kids[ci].kids[j], 'audioBlockFormatID', bid[:12] + '%08x' % (int(bid[12:], 16) - 1)))
    # 7. a mandatory attribute is missing
    seen = {}
    for n, path in walk(tree):
        for a in MANDATORY.get(n.name, []):
            if get_attr(n, a) is None:
                continue
            k = seen.get((n.name, a), 0)
            seen[(n.name, a)] = k + 1
            if k < 2:
                mutate('missing:%s@%s' % (n.name, a), 'occurrence %d' % (k + 1), lambda t, path=path, a=a: del_attr(at(t, path), a))
        if n.name == 'position' and len(path) >= 2 and at(tree, path[:-1]).name == 'audioBlockFormat':
            k = seen.get('position@coordinate', 0)
            seen['position@coordinate'] = k + 1
            if k < 2:
                mutate('missing:position@coordinate', 'occurrence %d' % (k + 1), lambda t, path=path: del_attr(at(t, path), 'coordinate'))
        if n.name == 'dialogue':
            mutate('missing:dialogue@kind', '', lambda t, path=path: setattr(at(t, path), 'attrs', []))
    # 8. a validated value is out of range
    seen = {}
    for n, path in walk(tree):
        for el, a, bad, param in OUT_OF_RANGE:
            if param is not None and param not in validated:
                continue
            if n.name != el or (a is not None and get_attr(n, a) is None) or (a is None and n.text is None):
                continue
            if seen.get((el, a)):
                continue
            seen[(el, a)] = 1

            def rng_(t, path=path, a=a, bad=bad):
                if a is None:
                    at(t, path).text = bad
                else:
                    set_attr(at(t, path), a, bad)
            mutate('out-of-range:%s%s' % (el, '@' + a if a else ''), bad, rng_)
        if (n.name == 'position' and get_attr(n, 'coordinate') in POSITION_RANGE and get_attr(n, 'bound') is None
                and POSITION_RANGE[get_attr(n, 'coordinate')][1] in validated):
            c = get_attr(n, 'coordinate')
            host = at(tree, path[:-2]) if len(path) >= 2 else None
            kind = 'objects' if (host is not None and get_attr(host, 'audioChannelFormatID', ) or 'x')[3:7] == '0003' else 'speaker'
            if not seen.get(('position', c, kind)):
                seen[('position', c, kind)] = 1
                mutate('out-of-range:%s-position@%s' % (kind, c), POSITION_RANGE[c][0],
                       lambda t, path=path, c=c: setattr(at(t, path), 'text', POSITION_RANGE[c][0]))
    return out
