#!/bin/bash
# thorough_sweep.sh - runs the thorough tier of every check on the unchanged tree, then the quick tier again
# (so that the committed evidence is that of the quick commands); results in build/thorough_sweep.txt
cd /verif
out=/verif/build/thorough_sweep.txt
: > $out
for p in C01 C02 C03 C04 C05 C06 C08 C09 C10 C11 C12 C13 C14 C15 C16 C17 C18 C19 C20 C07; do
  s=$(date +%s)
  VERIF_SEED=${VERIF_SEED:-11} ./check $p --tier thorough > /verif/build/thorough_$p.log 2>&1; rc=$?
  echo "$p rc=$rc $(( $(date +%s) - s ))s $(tail -1 /verif/build/thorough_$p.log | cut -c1-200)" >> $out
done
echo DONE >> $out
