"""heapgen.py - generator of op scripts for the heap model / libadm correspondence (DESIGN.md section 7).
All random choices come from the rng passed in. A case is a list of lines ending with 'end'."""

KINDS = ['prog', 'cont', 'obj', 'pack', 'chan', 'stream', 'track', 'uid']
RK = {  # refkind: (source kind, destination kind, multi)
    'progcont': ('prog', 'cont', True), 'contobj': ('cont', 'obj', True), 'objobj': ('obj', 'obj', True),
    'objpack': ('obj', 'pack', True), 'objuid': ('obj', 'uid', True), 'objcompl': ('obj', 'obj', True),
    'packpack': ('pack', 'pack', True), 'packchan': ('pack', 'chan', True),
    'streamchan': ('stream', 'chan', False), 'streampack': ('stream', 'pack', False),
    'streamtrack': ('stream', 'track', True), 'trackstream': ('track', 'stream', False),
    'uidtrack': ('uid', 'track', False), 'uidpack': ('uid', 'pack', False), 'uidchan': ('uid', 'chan', False),
}
MULTI = [r for r in RK if RK[r][2]]
SINGLE = [r for r in RK if not RK[r][2]]


class Pool:
    def __init__(self):
        self.by_kind = {k: [] for k in KINDS}
        self.next = 0
        self.td = {}

    def fresh(self):
        n = self.next
        self.next += 1
        return 'h%d' % n


def new_line(rng, pool, kind, tds=(1, 2, 3, 4, 5, 0)):
    h = pool.fresh()
    pool.by_kind[kind].append(h)
    if kind == 'pack':
        if rng.random() < 0.15:
            pool.td[h] = 4
            return 'new %s pack 4 hoa' % h
        td = rng.choice(tds)
        pool.td[h] = td
        if td == 4:   # AudioPackFormat::create refuses HOA: AudioPackFormatHoa::create must be used
            return 'new %s pack 4 hoa' % h
        return 'new %s pack %d' % (h, td)
    if kind == 'chan':
        td = rng.choice(tds)
        pool.td[h] = td
        return 'new %s chan %d' % (h, td)
    return 'new %s %s' % (h, kind)


def rand_id(rng, pool, kind, h):
    """(ty, val, ctr) drawn from undefined / first free / gaps / taken / reserved / top of field."""
    vals = [0x1000, 0x1001, 0x1001, 0x1002, 0x1002, 0x1003, 0x1005, 0x0100, 0x0fff, 0xffff, 0xfffe, 1, 2, 3]
    r = rng.random()
    if kind == 'uid':
        if r < 0.12:
            return (0, 0xffffffff, 0)
        if r < 0.27:
            return (0, 0, 0)
        return (0, rng.choice([1, 1, 2, 2, 3, 4, 5, 7, 0x1001, 0xfffffffe]), 0)
    if r < 0.12:
        return (0, 0, 0)
    v = rng.choice(vals)
    if kind in ('pack', 'chan'):
        td = pool.td.get(h, 0)
        ty = td if rng.random() < 0.8 else rng.randrange(6)
        return (ty, v, 0)
    if kind == 'stream':
        return (rng.choice([0, 1, 1, 3, 3, rng.randrange(6)]), v, 0)
    if kind == 'track':
        return (rng.choice([0, 1, 1, 3, 3, rng.randrange(6)]), v, rng.choice([0, 1, 1, 2, 2, 3, 5, 255]))
    return (0, v, 0)


DEFAULT_WEIGHTS = dict(add=22, remove=9, addref=26, rmref=5, setref=12, unsetref=3, clearrefs=3, setid=9,
                       silent=2, lookup=3, new=3)


def gen_history(rng, nops=30, pool_sizes=None, ndocs=2, weights=None, snapshot_every=1, extra_ops=None,
                kinds=None, rks=None):
    """Returns the list of lines of one case (without the 'case' header)."""
    pool = Pool()
    lines = []
    docs = ['d%d' % i for i in range(ndocs)]
    for d in docs:
        lines.append('newdoc ' + d)
    kinds = kinds or KINDS
    tds = rng.choice([(1, 2, 3, 4, 5, 0), (3,), (1, 3), (3, 3, 3, 1, 4)])
    for k in kinds:
        n = pool_sizes[k] if pool_sizes else rng.randrange(1, 5)
        for _ in range(n):
            lines.append(new_line(rng, pool, k, tds))
    w = dict(DEFAULT_WEIGHTS)
    if weights:
        w.update(weights)
    if extra_ops:
        for name, (wt, _fn) in extra_ops.items():
            w[name] = wt
    names = list(w)
    ws = [w[n] for n in names]
    rks = rks or list(RK)
    multi = [r for r in rks if RK[r][2] and RK[r][0] in kinds and RK[r][1] in kinds]
    single = [r for r in rks if not RK[r][2] and RK[r][0] in kinds and RK[r][1] in kinds]

    def anyel():
        k = rng.choice(kinds)
        return (k, rng.choice(pool.by_kind[k])) if pool.by_kind[k] else anyel()

    count = 0
    while count < nops:
        op = rng.choices(names, ws)[0]
        line = None
        if op == 'add':
            k, h = anyel()
            line = 'add %s %s' % (rng.choice(docs) if rng.random() < 0.75 else docs[0], h)
        elif op == 'remove':
            k, h = anyel()
            line = 'remove %s %s' % (rng.choice(docs) if rng.random() < 0.5 else docs[0], h)
        elif op in ('addref', 'rmref') and multi:
            rk = rng.choice(multi)
            a, b = pool.by_kind[RK[rk][0]], pool.by_kind[RK[rk][1]]
            if a and b:
                line = '%s %s %s %s' % (op, rk, rng.choice(a), rng.choice(b))
        elif op == 'setref' and single:
            rk = rng.choice(single)
            a, b = pool.by_kind[RK[rk][0]], pool.by_kind[RK[rk][1]]
            if a and b:
                line = 'setref %s %s %s' % (rk, rng.choice(a), rng.choice(b))
        elif op == 'unsetref' and single:
            rk = rng.choice(single)
            a = pool.by_kind[RK[rk][0]]
            if a:
                line = 'unsetref %s %s' % (rk, rng.choice(a))
        elif op == 'clearrefs' and multi:
            rk = rng.choice(multi)
            a = pool.by_kind[RK[rk][0]]
            if a:
                line = 'clearrefs %s %s' % (rk, rng.choice(a))
        elif op == 'setid':
            k, h = anyel()
            line = 'setid %s %d %d %d' % ((h,) + rand_id(rng, pool, k, h))
        elif op == 'silent' and 'uid' in kinds:
            h = pool.fresh()
            pool.by_kind['uid'].append(h)
            line = 'silent %s %s' % (h, rng.choice(docs + ['-']))
        elif op == 'lookup':
            k, h = anyel()
            line = 'lookup %s %s %d %d %d' % ((rng.choice(docs), k) + rand_id(rng, pool, k, h))
        elif op == 'new':
            line = new_line(rng, pool, rng.choice(kinds), tds)
        elif extra_ops and op in extra_ops:
            line = extra_ops[op][1](rng, pool, docs)
        if line is None:
            continue
        if isinstance(line, list):
            for l in line:
                lines.append(l)
                if snapshot_every:
                    lines.append('snapshot')
            count += len(line)
            continue
        lines.append(line)
        count += 1
        if snapshot_every and count % snapshot_every == 0:
            lines.append('snapshot')
    if lines[-1] != 'snapshot':
        lines.append('snapshot')
    lines.append('end')
    return lines


def split_results(out_text):
    """Driver output -> list of per-case line lists (each ending with 'end')."""
    cases = []
    cur = []
    for line in out_text.split('\n'):
        if line == '':
            continue
        cur.append(line)
        if line == 'end':
            cases.append(cur)
            cur = []
    if cur:
        cases.append(cur)
    return cases


# ---------------------------------------------------------------------------
# extra ops: block formats, times, copies, reassignIds, route tracing, durations, helper objects
# ---------------------------------------------------------------------------
def rand_time(rng, lo=0, hi=20 * 10 ** 9, frac_prob=0.35):
    if rng.random() < frac_prob:
        d = rng.choice([1, 25, 48000, 44100, 1001, 30000, 1000000000])
        return 'fr:%d/%d' % (rng.randrange(lo * d // 10 ** 9, max(lo * d // 10 ** 9 + 1, hi * d // 10 ** 9)), d)
    step = rng.choice([1, 10 ** 6, 10 ** 8, 10 ** 9])
    return 'ns:%d' % (rng.randrange(lo // step, max(lo // step + 1, hi // step)) * step)


def op_block(rng, pool, docs):
    if not pool.by_kind['chan']:
        return None
    h = rng.choice(pool.by_kind['chan'])
    td = pool.td.get(h, 3)
    t = td if (1 <= td <= 5 and rng.random() < 0.85) else rng.randrange(1, 6)
    st = pool.__dict__.setdefault('blk', {})
    cnt = pool.__dict__.setdefault('blkcount', {})
    nblocks = cnt.get((h, t), 0)
    cnt[(h, t)] = nblocks + 1
    last = st.get((h, t), 0)
    if rng.random() < 0.8:
        idpart = '0 0 0'
    else:
        idpart = '%d %d %d' % (rng.choice([td, td, rng.randrange(6)]), rng.choice([0, 0x1001, 0x1002, 0x1000]),
                               rng.choice([1, 2, 3, nblocks + 1, nblocks + 1]))
    nxt = last + rng.choice([1, 2, 5]) * 10 ** rng.choice([8, 9])
    st[(h, t)] = nxt
    r = rng.random()
    rt = '-' if (last == 0 and r < 0.5) else ('ns:%d' % last if r < 0.8 else 'fr:%d/%d' % (last * 48000 // 10 ** 9, 48000))
    du = '-' if rng.random() < 0.6 else rand_time(rng, 0, 3 * 10 ** 9)
    return 'block %s %d %s %s %s' % (h, t, idpart, rt, du)


def op_settimes(rng, pool, docs):
    k = rng.choice(['prog', 'obj'])
    if not pool.by_kind[k]:
        return None
    h = rng.choice(pool.by_kind[k])
    st = '-' if rng.random() < 0.6 else rand_time(rng, 0, 5 * 10 ** 9)
    en = '-' if rng.random() < 0.4 else rand_time(rng, 5 * 10 ** 9, 30 * 10 ** 9)
    return 'settimes %s %s %s' % (h, st, en)


def op_copy(rng, pool, docs):
    k = rng.choice(KINDS)
    if not pool.by_kind[k]:
        return None
    h = rng.choice(pool.by_kind[k])
    n = pool.fresh()
    pool.by_kind[k].append(n)
    if h in pool.td:
        pool.td[n] = pool.td[h]
    return 'copy %s %s' % (h, n)


def op_deepcopy(rng, pool, docs):
    d = rng.choice(docs)
    n = 'd%d' % len(docs)
    docs.append(n)
    base = pool.next
    pool.next += 150
    return 'deepcopy %s %s %d' % (d, n, base)


def op_deepcopyto(rng, pool, docs):
    a, b = rng.choice(docs), rng.choice(docs)
    base = pool.next
    pool.next += 150
    return 'deepcopyto %s %s %d' % (a, b, base)


def op_reassign(rng, pool, docs):
    return 'reassign %s' % rng.choice(docs)


def op_trace(rng, pool, docs):
    if not pool.by_kind['prog']:
        return None
    return 'trace %s' % rng.choice(pool.by_kind['prog'])


def op_fixdur(rng, pool, docs):
    return 'fixdur %s %s' % (rng.choice(docs), '-' if rng.random() < 0.4 else rand_time(rng, 5 * 10 ** 9, 30 * 10 ** 9))


def op_simple(rng, pool, docs):
    base = pool.next
    pool.next += 6
    short = rng.random() < 0.4
    names = ['h%d' % (base + i) for i in range(6)]
    pool.by_kind['obj'].append(names[0])
    pool.by_kind['pack'].append(names[1])
    pool.td[names[1]] = 3
    if not short:
        pool.by_kind['stream'].append(names[2])
        pool.by_kind['track'].append(names[3])
    pool.by_kind['chan'].append(names[4])
    pool.td[names[4]] = 3
    pool.by_kind['uid'].append(names[5])
    return 'simple %s %d%s' % (rng.choice(docs + ['-']), base, ' short' if short else '')


def op_collide(rng, pool, docs):
    """An element already in a document is given the ID V through set(Id); another element of the same kind, pre-set to
    the same V, is added afterwards (C05: the assigner must look at the document, not at what it issued itself)."""
    kinds = [k for k in KINDS if len(pool.by_kind[k]) >= 2]
    if not kinds:
        return None
    k = rng.choice(kinds)
    e, u = rng.sample(pool.by_kind[k], 2)
    d = rng.choice(docs)
    if k == 'uid':
        v = rng.choice([6, 16, 17, 300, 0x1001, 0x2000, 0x12345])
        i = (0, v, 0)
    else:
        v = rng.choice([0x1001, 0x1002, 0x1004, 0x1010, 0x1100, 0x2000, 0xff00])
        ty = pool.td.get(e, 0) if k in ('pack', 'chan') else (rng.choice([0, 1, 3]) if k in ('stream', 'track') else 0)
        i = (ty, v, rng.choice([1, 2, 7]) if k == 'track' else 0)
    lines = []
    if rng.random() < 0.8:
        lines.append('add %s %s' % (d, e))
    lines.append('setid %s %d %d %d' % ((e,) + i))
    if rng.random() < 0.3:
        lines.append('lookup %s %s %d %d %d' % ((d, k) + i))
    lines.append('setid %s %d %d %d' % ((u,) + i))
    lines.append('add %s %s' % (d, u))
    return lines


def op_fanin(rng, pool, docs):
    """Several elements reference one target through the same reference kind; the target is then removed
    (C04: every referrer has to let go, not just the first one the removal loop meets)."""
    rk = rng.choice(list(RK))
    src, dst, multi = RK[rk]
    if not pool.by_kind[dst] or len(pool.by_kind[src]) < 2:
        return None
    b = rng.choice(pool.by_kind[dst])
    srcs = [a for a in pool.by_kind[src] if a != b]
    if len(srcs) < 2:
        return None
    k = rng.choice([2, 2, 3, 4])
    picks = rng.sample(srcs, min(k, len(srcs)))
    d = rng.choice(docs)
    lines = []
    for a in picks:
        lines.append('%s %s %s %s' % ('addref' if multi else 'setref', rk, a, b))
    lines.append('add %s %s' % (d, b))
    for a in picks:
        if rng.random() < 0.7:
            lines.append('add %s %s' % (d, a))
    lines.append('remove %s %s' % (d, b))
    return lines


EXTRA = dict(fanin=(6, op_fanin), collide=(8, op_collide), block=(8, op_block), settimes=(3, op_settimes), copy=(3, op_copy), deepcopy=(2, op_deepcopy),
             deepcopyto=(2, op_deepcopyto), reassign=(3, op_reassign), trace=(3, op_trace), fixdur=(3, op_fixdur),
             simple=(3, op_simple))


def gen_suffix(rng, pool, docs, nops=10, weights=None):
    """Mutation ops over an existing pool (used after a copy, when the names are known from a snapshot)."""
    w = dict(DEFAULT_WEIGHTS)
    w.update(dict(new=0, silent=0))
    if weights:
        w.update(weights)
    names = list(w)
    ws = [w[n] for n in names]
    kinds = [k for k in KINDS if pool.by_kind[k]]
    lines = []
    if not kinds:
        return lines
    multi = [r for r in RK if RK[r][2] and pool.by_kind[RK[r][0]] and pool.by_kind[RK[r][1]]]
    single = [r for r in RK if not RK[r][2] and pool.by_kind[RK[r][0]] and pool.by_kind[RK[r][1]]]
    count = 0
    guard = 0
    while count < nops and guard < 1000:
        guard += 1
        op = rng.choices(names, ws)[0]
        k = rng.choice(kinds)
        h = rng.choice(pool.by_kind[k])
        line = None
        if op == 'add':
            line = 'add %s %s' % (rng.choice(docs), h)
        elif op == 'remove':
            line = 'remove %s %s' % (rng.choice(docs), h)
        elif op in ('addref', 'rmref') and multi:
            rk = rng.choice(multi)
            line = '%s %s %s %s' % (op, rk, rng.choice(pool.by_kind[RK[rk][0]]), rng.choice(pool.by_kind[RK[rk][1]]))
        elif op == 'setref' and single:
            rk = rng.choice(single)
            line = 'setref %s %s %s' % (rk, rng.choice(pool.by_kind[RK[rk][0]]), rng.choice(pool.by_kind[RK[rk][1]]))
        elif op == 'unsetref' and single:
            rk = rng.choice(single)
            line = 'unsetref %s %s' % (rk, rng.choice(pool.by_kind[RK[rk][0]]))
        elif op == 'clearrefs' and multi:
            rk = rng.choice(multi)
            line = 'clearrefs %s %s' % (rk, rng.choice(pool.by_kind[RK[rk][0]]))
        elif op == 'setid':
            line = 'setid %s %d %d %d' % ((h,) + rand_id(rng, pool, k, h))
        elif op == 'reassign':
            line = 'reassign %s' % rng.choice(docs)
        if line is None:
            continue
        lines += [line, 'snapshot']
        count += 1
    return lines


# ---------------------------------------------------------------------------
# XML-facing ops (C01): random parameter fill, block formats with parameters, common definitions
# ---------------------------------------------------------------------------
def op_fill(rng, pool, docs):
    k = rng.choice(KINDS)
    if not pool.by_kind[k]:
        return None
    return 'fill %s %d' % (rng.choice(pool.by_kind[k]), rng.randrange(1 << 30))


def op_fillblock(rng, pool, docs):
    if not pool.by_kind['chan']:
        return None
    h = rng.choice(pool.by_kind['chan'])
    td = pool.td.get(h, 3)
    t = td if (td in (1, 3, 4, 5) and rng.random() < 0.9) else rng.choice([1, 3, 4, 5])
    st = pool.__dict__.setdefault('blk', {})
    last = st.get((h, t), 0)
    st[(h, t)] = last + rng.choice([1, 2, 5]) * 10 ** rng.choice([7, 8, 9])
    return 'fillblock %s %d %d %d' % (h, t, rng.randrange(1 << 30), last)


def rand_id_c01(rng, pool, kind, h):
    """Defined, non-reserved IDs inside the field (C01's quantifier)."""
    if kind == 'uid':
        # not 0xfffffffe: a clash there makes the library assign 0xffffffff, which is the undefined ID
        return (0, rng.choice([1, 2, 3, 7, 0x1001, 0xfffffff0, 0x12345678]), 0)
    # not the top of the field: a clash there makes the library assign 0x10000, which has no four-digit text
    # (writeXml then throws) - an ID outside C01's domain "within field width"
    v = rng.choice([0x1000, 0x1001, 0x1002, 0x1005, 0xff00, 0xfe00, 0x2000])
    if kind in ('pack', 'chan'):
        return (pool.td.get(h, 0), v, 0)
    if kind == 'stream':
        return (rng.choice([0, 1, 3, 4]), v, 0)
    if kind == 'track':
        return (rng.choice([0, 1, 3, 4]), v, rng.choice([1, 2, 3, 255]))
    return (0, v, 0)


def op_setid_c01(rng, pool, docs):
    k = rng.choice(KINDS)
    if not pool.by_kind[k]:
        return None
    h = rng.choice(pool.by_kind[k])
    return 'setid %s %d %d %d' % ((h,) + rand_id_c01(rng, pool, k, h))


XML_EXTRA = dict(fill=(30, op_fill), fillblock=(14, op_fillblock), setidc=(5, op_setid_c01), simple=(4, op_simple),
                 settimes=(2, op_settimes))
