"""xmlspecs.py - generators and oracles of the XML properties that run on API-built documents (C01, C13, C19).
The histories are those of the heap properties plus the XML-facing ops of harness/cpp/xml_ops.hpp; the heap model
has no XML layer, so these specs run on libadm only (the tie of the XML tables to the source is the translator)."""
import heapgen

CONFIGS = [('ebu', '0'), ('ebu', '1'), ('itu', '0'), ('itu', '1')]
# (kind, type, value, counter) of common definitions elements the scenarios refer to
COMMON = [('pack', 1, 1, 0), ('pack', 1, 2, 0), ('pack', 1, 3, 0), ('pack', 4, 1, 0),
          ('chan', 1, 1, 0), ('chan', 1, 2, 0), ('chan', 1, 3, 0), ('chan', 4, 1, 0),
          ('stream', 1, 1, 0), ('stream', 1, 2, 0), ('track', 1, 1, 1), ('track', 1, 2, 1)]
W_C01 = dict(setid=0, lookup=0, remove=4, add=25, addref=25, setref=12)


def common_suffix(rng, doc):
    """References from fresh objects / track UIDs / packs into the embedded common definitions."""
    lines = ['commondefs ' + doc]
    names = {}
    for i, (k, ty, v, c) in enumerate(COMMON):
        names.setdefault(k, []).append('c%d' % i)
        lines.append('bindcd c%d %s %s %d %d %d' % (i, doc, k, ty, v, c))
    n = 0
    for _ in range(rng.randrange(1, 4)):
        o, u = 'xo%d' % n, 'xu%d' % n
        n += 1
        lines += ['new %s obj' % o, 'add %s %s' % (doc, o), 'addref objpack %s %s' % (o, rng.choice(names['pack']))]
        lines += ['new %s uid' % u, 'add %s %s' % (doc, u), 'addref objuid %s %s' % (o, u)]
        r = rng.random()
        if r < 0.4:
            lines.append('setref uidchan %s %s' % (u, rng.choice(names['chan'])))
        elif r < 0.8:
            lines.append('setref uidtrack %s %s' % (u, rng.choice(names['track'])))
        lines.append('setref uidpack %s %s' % (u, rng.choice(names['pack'])))
        if rng.random() < 0.5:
            lines.append('fill %s %d' % (o, rng.randrange(1 << 30)))
    if rng.random() < 0.5:
        lines += ['new xp pack 1', 'add %s xp' % doc, 'addref packchan xp %s' % rng.choice(names['chan']),
                  'addref packpack xp %s' % rng.choice(names['pack'])]
    return lines


def xml_history(rng, quick=True, simple=True):
    ndocs = rng.choice([1, 1, 2])
    extra = heapgen.XML_EXTRA if simple else {k: v for k, v in heapgen.XML_EXTRA.items() if k != 'simple'}
    c = heapgen.gen_history(rng, nops=rng.choice([8, 25, 50] if quick else [10, 40, 90]), ndocs=ndocs,
                            extra_ops=extra, snapshot_every=0, weights=W_C01)
    c = [l for l in c if l not in ('end', 'snapshot')]
    docs = ['d%d' % i for i in range(ndocs)]
    if rng.random() < 0.35:
        c += common_suffix(rng, 'd0')
    return c, docs


def successful_prefixes(hist):
    """C01 (like C03) is about documents reached by calls that succeed: the partial effects of a call that
    throws are outside the guarantee, so every history is cut before its first failing call (found by running
    the candidate history on libadm once)."""
    import heapcheck
    import vlib
    exe = vlib.build_admdrv('plain')
    outs = heapcheck.run_cases(exe, [c + ['end'] for c, _d in hist])
    res = []
    for (c, docs), o in zip(hist, outs):
        ops = heapcheck.split_ops(c + ['end'], o)
        keep = []
        for op, r, _s in ops:
            if r.startswith('exn') or op == 'end':
                break
            keep.append(op)
        res.append((keep, docs))
    return res


class C01:
    what = 'XmlTabGen.v regenerated from the formatter and the parser; write -> parse -> write on libadm'
    use_model = False
    snapshots = False
    rule = ('API histories (add/remove/reference edits/set(Id) over 1-4 elements per kind, 1-2 documents) with random '
            'valid values for every settable parameter of every element and block format (nested structures, labels, '
            'loudness, interaction, positions with bounds and screenEdgeLock, times decimal and fractional, strings with '
            'XML meta characters, UTF-8 and white space), references into the common definitions, then writeXml -> '
            'parseXml -> writeXml for EBU/ITU x write_default_values; non-trivial = histories with a filled element')
    assumptions = ['values are drawn inside the validators (a rejected value is retried); strings are never white-space-only',
                   'Matrix block formats are not generated (documented as unsupported)',
                   'the comparison of the re-read document with the original uses the public accessors of every '
                   'parameter known to tools/translate_params.py; floats are compared at six decimals']
    ncases_quick, ncases_thorough = 700, 60000

    @classmethod
    def gen(cls, ctx):
        n = cls.ncases_quick if ctx.quick() else cls.ncases_thorough
        hist = [xml_history(ctx.rng, ctx.quick()) for _ in range(n)]
        hist = successful_prefixes(hist)
        out = []
        for c, docs in hist:
            c = list(c)
            for d in docs:
                for env, df in CONFIGS:
                    c.append('roundtrip %s %s %s' % (d, env, df))
            out.append(c + ['end'])
        return out

    @staticmethod
    def nontrivial(ops):
        return any(op.startswith('fill') and r == 'ok' for op, r, _s in ops)

    @staticmethod
    def oracle(case, ops):
        out = []
        for op, r, _s in ops:
            if not op.startswith('roundtrip'):
                continue
            t = r.split()
            if r == 'ok same':
                continue
            if len(t) > 1 and t[1] == 'REPARSE-FAILED':
                out.append(('reparse-failed', '`%s`: parseXml rejects the XML written by writeXml: %s' % (op, ' '.join(t[2:])[:200])))
            elif len(t) > 1 and t[1] == 'DIFF':
                out.append(('rewrite-differs', '`%s`: the re-written XML differs: %s' % (op, ' '.join(t[2:])[:240])))
            elif len(t) > 1 and t[1] == 'DUMPDIFF':
                # the XML texts agree; the accessor-level views differ only in parameters the writer never emits
                # (e.g. an Objects block's own ScreenEdgeLock) - C01 is about what is emitted, so this is not a violation
                continue
            elif len(t) > 1 and t[1] == 'WRITE-FAILED':
                out.append(('write-failed', '`%s`: writeXml throws: %s' % (op, ' '.join(t[2:])[:200])))
            else:
                out.append(('roundtrip-error:' + '-'.join(t[:2]), '`%s`: %s' % (op, r[:200])))
        return out


class C02:
    what = 'XmlTabGen.v regenerated from the parser and the formatter; parse -> write -> parse on libadm'
    use_model = False
    snapshots = False
    rule = ('ADM XML files from a grammar-based generator that does not use libadm\'s writer (every element, attribute '
            'and sub-element of the regenerated parser table except the documented stubs; typeLabel/typeDefinition and '
            'formatLabel/formatDefinition variants; positions with bounds and screenEdgeLock; gain units; labels; '
            'loudnessMetadata; interaction ranges; HOA pack attributes; low/high pass; decimal and fractional times; '
            'EBU and ITU envelopes; shuffled attribute and element order) plus every file under tests/test_data; '
            'parse -> write -> parse, the two documents compared through every public accessor; non-trivial = accepted files')
    assumptions = ['numeric values are compared at six decimals (the writer\'s precision, as C02 states)',
                   'files the parser rejects (a generated value outside a validator, test files that are broken on purpose) '
                   'are counted but are not part of the property',
                   'not generated (documented stubs): Matrix block content, audioProgrammeReferenceScreen content, '
                   'zoneExclusion, audioMXFLookUp']
    ncases_quick, ncases_thorough = 400, 60000
    trees = {}

    @classmethod
    def gen(cls, ctx):
        import os
        import admxmlgen
        import vlib
        n = cls.ncases_quick if ctx.quick() else cls.ncases_thorough
        out = []
        used = set()
        tdir = os.path.join(vlib.REPO, 'tests', 'test_data')
        for fn in sorted(os.listdir(tdir)) if os.path.isdir(tdir) else []:
            if fn.endswith('.xml'):
                data = open(os.path.join(tdir, fn), 'rb').read()
                for env in ('ebu', 'itu'):
                    out.append(['p2w %s %s %s' % (data.hex(), env, '0'), 'end'])
        cls.n_testdata = len(out)
        for _ in range(n):
            x, info = admxmlgen.gen_file(ctx.rng)
            line = 'p2w %s %s %s' % (x.encode().hex(), info['env'], ctx.rng.choice('01'))
            cls.trees[line] = (info['tree'], info['env'])
            used |= set(info['used'])
            out.append([line, 'end'])
        cls.used = used
        return out

    @staticmethod
    def nontrivial(ops):
        return any(op.startswith('p2w') and r.startswith('ok same') for op, r, _s in ops)

    @staticmethod
    def oracle(case, ops):
        out = []
        for op, r, _s in ops:
            if not op.startswith('p2w'):
                continue
            t = r.split()
            if r.startswith('ok same') or r.startswith('ok rejected'):
                continue
            kind = t[1] if len(t) > 1 else 'error'
            what = {'DUMPDIFF': 'the document parsed from the re-saved file differs from the first parse',
                    'REPARSE-FAILED': 'parseXml rejects the re-saved file', 'WRITE-FAILED': 'writeXml throws on the parsed document'}.get(kind, 'error')
            # the tag names the parameter / element kind that differs, so that different losses are reported separately
            detail = ' '.join(t[2:])
            import re
            m = re.search(r'(\w+)=[01-],[^/]*$', detail.split('|||')[0]) if kind == 'DUMPDIFF' else None
            out.append(('p2w-%s%s' % (kind.lower(), (':' + m.group(1)) if m else ''), '%s: %s' % (what, detail[:260])))
        return out

    @classmethod
    def shrink(cls, case, fails):
        import random
        import admxmlgen
        line = case[0]
        if line not in cls.trees:
            return case
        tree, env = cls.trees[line]
        dflt = line.split()[3]

        def render(t):
            return ['p2w %s %s %s' % (admxmlgen.wrap(t, random.Random(1), env).encode().hex(), env, dflt), 'end']
        if not fails(render(tree)):
            return case
        admxmlgen.shrink_tree(tree, lambda t: fails(render(t)))
        return render(tree)

    @classmethod
    def extra(cls, ctx, proof, found):
        ctx.coverage['xml_names_generated'] = len(cls.used)
        ctx.coverage['test_data_cases'] = cls.n_testdata


def describe_hex(case):
    out = []
    for l in case:
        t = l.split()
        if t and t[0] in ('p2w', 'rej', 'det', 'fuzz') and len(t) > 1:
            try:
                out.append(bytes.fromhex(t[1]).decode('utf-8', 'replace'))
            except ValueError:
                pass
    return out


C02.describe = staticmethod(describe_hex)


class C08:
    what = 'XmlTabGen.v (duplicate checks, reference tables, mandatory attributes) regenerated from the parser; fault injection on libadm'
    use_model = False
    snapshots = False
    rule = ('valid generated ADM files (accepted by parseXml before the injection) crossed with every site of: a repeated '
            'element / a repeated ID per element kind (first, middle, last), an IDRef that names no element for each of '
            'the fifteen reference kinds (first, middle, last reference; added when the file has none), typeLabel / '
            'typeDefinition contradicting the ID, formatLabel contradicting formatDefinition or both missing, an '
            'audioTrackUID with a track format and a channel format reference (both orders), block format IDs of another '
            'channel / another type / with a gap / repeated (DirectSpeakers, Objects, HOA), each mandatory attribute '
            'removed, validated values out of range; non-trivial = faulty files')
    assumptions = ['the base files come from tools/admxmlgen.py; a base file the parser rejects is not used',
                   'a faulty file counts as rejected when parseXml throws any exception derived from std::exception']
    nfiles_quick, nfiles_thorough = 40, 1500
    faults = {}

    @classmethod
    def gen(cls, ctx):
        import admxmlgen
        import faultgen
        import heapcheck
        import vlib
        n = cls.nfiles_quick if ctx.quick() else cls.nfiles_thorough
        exe = vlib.build_admdrv('plain')
        validated = faultgen.validated_params(vlib.REPO)
        cls.validated = len(validated)
        bases = []
        for _ in range(n):
            _x, info = admxmlgen.gen_file(ctx.rng, size=ctx.rng.choice([1, 2, 2, 3]))
            bases.append(info)
        import random
        rendered = [admxmlgen.wrap(i['tree'], random.Random(1), i['env']) for i in bases]
        outs = heapcheck.run_cases(exe, [['rej %s %s' % (x.encode().hex(), i['env']), 'end'] for x, i in zip(rendered, bases)])
        cases = []
        cls.bases_accepted = 0
        cls.by_fault = {}
        for info, o in zip(bases, outs):
            if not o or not o[0].startswith('ok accepted'):
                continue
            cls.bases_accepted += 1
            for fault, site, tree in faultgen.enumerate_faults(info['tree'], validated):
                x = admxmlgen.wrap(tree, random.Random(1), info['env'])
                line = 'rej %s %s' % (x.encode().hex(), info['env'])
                cls.faults[line] = (fault, site)
                cls.by_fault[fault] = cls.by_fault.get(fault, 0) + 1
                cases.append([line, 'end'])
        return cases

    @staticmethod
    def nontrivial(ops):
        return True

    @classmethod
    def oracle(cls, case, ops):
        out = []
        for op, r, _s in ops:
            if op.startswith('rej') and r.startswith('ok accepted'):
                fault, site = cls.faults.get(op, ('unknown', ''))
                out.append(('accepted:' + fault, 'parseXml returns a document for a file with the fault `%s` (%s)' % (fault, site)))
        return out

    @staticmethod
    def shrink(case, fails):
        return case          # deleting parts of a faulty file can delete the fault

    describe = staticmethod(describe_hex)

    @classmethod
    def extra(cls, ctx, proof, found):
        ctx.coverage['base_files_accepted'] = cls.bases_accepted
        ctx.coverage['faults_injected'] = dict(sorted(cls.by_fault.items()))


def rename_handles(lines, prefix):
    import re
    return [re.sub(r'\b(xp|[hdcx][a-z]?\d+)\b', lambda m: prefix + m.group(1), l) if not l.startswith('bindcd') else
            re.sub(r'^bindcd (\w+) (\w+) ', lambda m: 'bindcd %s%s %s%s ' % (prefix, m.group(1), prefix, m.group(2)), l)
            for l in lines]


class C13:
    what = 'LayoutGen.v (container inventory) regenerated from the sources; the same bytes / the same call sequence under different address orders on libadm'
    use_model = False
    snapshots = False
    rule = ('(a) generated ADM files parsed and written under five address layouts (a replaced global operator new that '
            'hands out the chunks of each size class in a seeded pseudo-random order; layout 0 = plain malloc); '
            '(b) API histories (as C01) replayed twice in one process under two layouts, the XML of every document '
            'compared; (c) one document written twice with an allocator perturbation in between; non-trivial = cases '
            'whose XML has at least one reference')
    assumptions = ['address layouts are produced by the perturbing allocator of harness/cpp/perturb.cpp; an order that '
                   'no seeded layout produces is not explored (the container inventory theorem is what covers all layouts)',
                   'process-to-process variation (ASLR) is covered by running the sharded driver processes']
    ncases_quick, ncases_thorough = 300, 40000
    SEEDS = (0, 1, 2, 3, 7)

    @classmethod
    def gen(cls, ctx):
        import admxmlgen
        n = cls.ncases_quick if ctx.quick() else cls.ncases_thorough
        out = []
        for _ in range(n // 2):
            x, info = admxmlgen.gen_file(ctx.rng, size=ctx.rng.choice([2, 3, 3]))
            h = x.encode().hex()
            c = []
            for s in cls.SEEDS:
                c += ['perturb %d' % (s if s == 0 else ctx.rng.randrange(1, 1 << 30)), 'pw %s %s %s' % (h, info['env'], '0')]
            out.append(c + ['end'])
        hist = successful_prefixes([xml_history(ctx.rng, ctx.quick(), simple=False) for _ in range(n - n // 2)])
        for c, docs in hist:
            first = ['perturb %d' % ctx.rng.randrange(1, 1 << 30)] + rename_handles(c, 'a')
            second = ['perturb %d' % ctx.rng.randrange(1, 1 << 30)] + rename_handles(c, 'b')
            tail1, tail2 = [], []
            for d in docs:
                env, df = ctx.rng.choice(CONFIGS)
                tail1.append('showxml a%s %s %s' % (d, env, df))
                tail2 += ['showxml b%s %s %s' % (d, env, df), 'perturb %d' % ctx.rng.randrange(1, 1 << 30),
                          'showxml b%s %s %s' % (d, env, df)]
            out.append(first + tail1 + second + tail2 + ['end'])
        # (d) call sequences in which a call fails part-way (updateBlockFormatDurations on scenes with a channel
        #     format it cannot fix): what the failed call leaves behind must not depend on the layout either
        import heapspecs
        for _ in range(max(20, n // 4)):
            c = [l for l in heapspecs.scene_c16(ctx.rng) if l not in ('snapshot', 'end')]
            chans = [l.split()[1] for l in c if l.startswith('new ') and l.split()[2] == 'chan']
            if len(chans) > 1 and ctx.rng.random() < 0.6:
                victim = ctx.rng.choice(chans)
                c = [l for l in c if not l.startswith('block %s ' % victim)]
            first = ['perturb %d' % ctx.rng.randrange(1, 1 << 30)] + rename_handles(c, 'a') + ['showxml ad0 ebu 0']
            second = ['perturb %d' % ctx.rng.randrange(1, 1 << 30)] + rename_handles(c, 'b') + ['showxml bd0 ebu 0']
            out.append(first + second + ['end'])
        return out

    @staticmethod
    def nontrivial(ops):
        return any('IDRef' in r or r.startswith('ok xml') for op, r, _s in ops)

    @staticmethod
    def oracle(case, ops):
        out = []
        pws = [(op, r) for op, r, _s in ops if op.startswith('pw ')]
        if len({r for _o, r in pws}) > 1:
            out.append(('parse-layout-dependent', 'parsing and writing the same bytes under different address layouts gives '
                        'different XML: %s' % sorted({r for _o, r in pws})[:3]))
        shows = {}
        for op, r, _s in ops:
            if op.startswith('showxml'):
                t = op.split()
                import re
                # default element names are the script handles: undo the renaming of the second replay
                shows.setdefault((t[1][1:], t[2], t[3]), []).append((t[1][0], re.sub(r'\b[ab](xp|[hdcx][a-z]?\d+)\b', r'\1', r)))
        for key, lst in shows.items():
            if len({r for _p, r in lst}) > 1:
                same_run = [r for p_, r in lst if p_ == 'b']
                tag = 'write-twice-differs' if len(set(same_run)) > 1 else 'replay-layout-dependent'
                import heapcheck
                a, b = sorted({r for _p, r in lst})[:2]
                al, bl = a.split('\\n'), b.split('\\n')
                diff = next(('%s ||| %s' % (x.strip(), y.strip()) for x, y in zip(al, bl) if x != y), 'lengths differ')
                out.append((tag, 'the same API call sequence / the same document gives different XML under another address layout (%s): %s'
                            % (' '.join(key), diff[:200])))
        return out

    @staticmethod
    def shrink(case, fails):
        return case          # the two replays of a case must stay identical; line-wise shrinking would break the pairing


class C19:
    what = 'XmlTabGen.v (frame header formatter / parser tables) regenerated from the sources; SADM frame write -> parse -> write on libadm'
    use_model = False
    snapshots = False
    rule = ('API-built documents (histories as C01) crossed with random FrameHeaders (short and long frameFormatIDs, the '
            'five frame types, both time references and the defaulted one, flowID, countToFull, numMetadataChunks, '
            'countToSameChunk, changedIDs of the eight kinds and four statuses, profile lists, transportTrackFormats '
            'with names, counts and audioTracks with format and audioTrackUIDRefs) and the four SadmWriterOptions '
            'combinations: writeXml(frame) -> parseFrameHeader + parseXml(header) -> writeXml, bytes compared; block '
            'time attributes checked against the time reference; the same frame parsed with a header of the other time '
            'reference must be rejected, and accepted with permit_time_reference_mismatch')
    assumptions = C01.assumptions + ['the mismatch rule is exercised on frames that contain at least one timed block format']
    ncases_quick, ncases_thorough = 400, 40000

    @classmethod
    def gen(cls, ctx):
        n = cls.ncases_quick if ctx.quick() else cls.ncases_thorough
        hist = successful_prefixes([xml_history(ctx.rng, ctx.quick()) for _ in range(n)])
        out = []
        for c, docs in hist:
            c = list(c)
            # make sure timed block formats exist in most frames
            chans = [l.split()[1] for l in c if l.startswith('new ') and l.split()[2] == 'chan' and l.split()[3] in ('1', '3', '4', '5')]
            if chans and ctx.rng.random() < 0.7:
                h = ctx.rng.choice(chans)
                td = next(l.split()[3] for l in c if l.startswith('new %s chan' % h))
                c += ['add %s %s' % (docs[0], h), 'fillblock %s %s %d 0' % (h, td, ctx.rng.randrange(1 << 30)),
                      'fillblock %s %s %d 2000000000' % (h, td, ctx.rng.randrange(1 << 30))]
            for d in docs:
                for _ in range(3):
                    c.append('frame %s %d %d %d %d' % (d, ctx.rng.randrange(2), ctx.rng.randrange(2), ctx.rng.randrange(2), ctx.rng.randrange(1 << 30)))
            out.append(c + ['end'])
        return out

    @staticmethod
    def nontrivial(ops):
        return any(op.startswith('frame') and 'timed=' in r and not r.endswith('timed=0') for op, r, _s in ops)

    @staticmethod
    def oracle(case, ops):
        out = []
        for op, r, _s in ops:
            if not op.startswith('frame') or r.startswith('ok same'):
                continue
            t = r.split()
            kind = t[1] if len(t) > 1 else 'error'
            # the add of the channel format appended by the generator may throw (other document): not a frame result
            if r.startswith('exn'):
                out.append(('frame-error:' + r.replace(' ', '-'), '`%s`: %s' % (op, r)))
                continue
            what = {'DIFF': 'the re-written frame differs', 'REPARSE-FAILED': 'the written frame is rejected',
                    'WRITE-FAILED': 'writeXml throws', 'TIMEREF': 'block times do not follow the time reference',
                    'MISMATCH-ACCEPTED': 'a frame contradicting its header is accepted',
                    'PERMIT-REJECTED': 'permit_time_reference_mismatch does not permit the mismatch'}.get(kind, 'error')
            detail = ' '.join(t[2:])
            import re
            m = re.search(r'<(\w+)', detail) if kind == 'DIFF' else None
            out.append(('frame-%s%s' % (kind.lower(), ':' + m.group(1) if m else ''), '`%s`: %s: %s' % (op, what, detail[:240])))
        return out


SPECS = {'C01': C01, 'C02': C02, 'C08': C08, 'C13': C13, 'C19': C19}
